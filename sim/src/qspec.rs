//! Independent implementation of the qcow2 on-disk format, written from the
//! specification text (docs/interop/qcow2.txt) and sharing no code with the
//! library under test: header parser, L1/L2 walk, cluster classification,
//! compressed-descriptor decode, guest reader, reference counter / checker,
//! and an image builder with seeded layout.
use crate::chooser::Rng;
use crate::content;
use crate::sim::PageFile;
use std::collections::BTreeMap;

pub const MAGIC: u32 = 0x5146_49fb;

pub trait Img {
    fn size(&self) -> u64;
    /// read exactly len bytes, zero filled beyond the end of the file
    fn rd(&self, off: u64, len: usize) -> Vec<u8>;
}

impl Img for PageFile {
    fn size(&self) -> u64 {
        self.len()
    }
    fn rd(&self, off: u64, len: usize) -> Vec<u8> {
        self.read_padded(off, len)
    }
}

impl Img for Vec<u8> {
    fn size(&self) -> u64 {
        self.len() as u64
    }
    fn rd(&self, off: u64, len: usize) -> Vec<u8> {
        let mut v = vec![0u8; len];
        if (off as usize) < self.len() {
            let n = std::cmp::min(len, self.len() - off as usize);
            v[..n].copy_from_slice(&self[off as usize..off as usize + n]);
        }
        v
    }
}

fn be32(b: &[u8], o: usize) -> u32 {
    u32::from_be_bytes(b[o..o + 4].try_into().unwrap())
}
fn be64(b: &[u8], o: usize) -> u64 {
    u64::from_be_bytes(b[o..o + 8].try_into().unwrap())
}

#[derive(Clone, Debug, Default)]
pub struct Hdr {
    pub version: u32,
    pub backing_off: u64,
    pub backing_len: u32,
    pub cluster_bits: u32,
    pub size: u64,
    pub crypt: u32,
    pub l1_size: u32,
    pub l1_off: u64,
    pub rt_off: u64,
    pub rt_clusters: u32,
    pub nb_snapshots: u32,
    pub snapshots_off: u64,
    pub incompat: u64,
    pub compat: u64,
    pub autoclear: u64,
    pub refcount_order: u32,
    pub header_length: u32,
    pub compression_type: u8,
    pub backing_name: Option<String>,
    pub extensions: Vec<(u32, Vec<u8>)>,
}

impl Hdr {
    pub fn cs(&self) -> u64 {
        1u64 << self.cluster_bits
    }
    pub fn l2_entries(&self) -> u64 {
        self.cs() / 8
    }
    pub fn refcount_bits(&self) -> u64 {
        1 << self.refcount_order
    }
    /// clusters covered by one refcount block
    pub fn rb_entries(&self) -> u64 {
        self.cs() * 8 / self.refcount_bits()
    }
    pub fn guest_clusters(&self) -> u64 {
        self.size.div_ceil(self.cs())
    }
    pub fn l1_needed(&self) -> u64 {
        self.guest_clusters().div_ceil(self.l2_entries())
    }
}

pub fn parse_header(img: &dyn Img) -> Result<Hdr, String> {
    if img.size() < 72 {
        return Err("file shorter than a version 2 header".into());
    }
    let b = img.rd(0, 112);
    let mut h = Hdr::default();
    if be32(&b, 0) != MAGIC {
        return Err("bad magic".into());
    }
    h.version = be32(&b, 4);
    if h.version != 2 && h.version != 3 {
        return Err(format!("unsupported version {}", h.version));
    }
    h.backing_off = be64(&b, 8);
    h.backing_len = be32(&b, 16);
    h.cluster_bits = be32(&b, 20);
    h.size = be64(&b, 24);
    h.crypt = be32(&b, 32);
    h.l1_size = be32(&b, 36);
    h.l1_off = be64(&b, 40);
    h.rt_off = be64(&b, 48);
    h.rt_clusters = be32(&b, 56);
    h.nb_snapshots = be32(&b, 60);
    h.snapshots_off = be64(&b, 64);
    if h.version >= 3 {
        h.incompat = be64(&b, 72);
        h.compat = be64(&b, 80);
        h.autoclear = be64(&b, 88);
        h.refcount_order = be32(&b, 96);
        h.header_length = be32(&b, 100);
        if h.header_length > 104 {
            h.compression_type = b[104];
        }
    } else {
        h.refcount_order = 4;
        h.header_length = 72;
    }
    if !(9..=21).contains(&h.cluster_bits) {
        return Err(format!("cluster_bits {} out of range", h.cluster_bits));
    }
    if h.refcount_order > 6 {
        return Err(format!("refcount_order {} too large", h.refcount_order));
    }
    if h.version >= 3 && (h.header_length < 104 || h.header_length % 8 != 0) {
        return Err(format!("bad header_length {}", h.header_length));
    }
    if h.crypt != 0 {
        return Err("encrypted".into());
    }
    if h.incompat != 0 {
        return Err(format!("incompatible features {:#x}", h.incompat));
    }
    let cs = h.cs();
    if h.l1_off % cs != 0 || h.rt_off % cs != 0 {
        return Err("L1 / refcount table offset not cluster aligned".into());
    }
    if (h.l1_size as u64) * 8 > (32 << 20) {
        return Err("L1 table too large".into());
    }
    if (h.rt_clusters as u64) * cs > (8 << 20) {
        return Err("refcount table too large".into());
    }
    if h.rt_off == 0 || h.rt_clusters == 0 {
        return Err("no refcount table".into());
    }
    if h.l1_size > 0 && h.l1_off == 0 {
        return Err("L1 table at offset 0".into());
    }
    // extensions
    let mut off = h.header_length as u64;
    loop {
        if off + 8 > cs {
            return Err("header extensions exceed the first cluster".into());
        }
        let eh = img.rd(off, 8);
        let ty = be32(&eh, 0);
        let len = be32(&eh, 4) as u64;
        off += 8;
        if ty == 0 {
            break;
        }
        if off + len > cs {
            return Err("header extension exceeds the first cluster".into());
        }
        h.extensions.push((ty, img.rd(off, len as usize)));
        off += len.div_ceil(8) * 8;
    }
    if h.backing_off != 0 {
        if h.backing_len > 1023 {
            return Err("backing name too long".into());
        }
        if h.backing_off + h.backing_len as u64 > cs {
            return Err("backing name outside first cluster".into());
        }
        let n = img.rd(h.backing_off, h.backing_len as usize);
        h.backing_name = Some(String::from_utf8(n).map_err(|_| "backing name not utf8")?);
    }
    Ok(h)
}

#[derive(Clone, Copy, Debug, PartialEq, Eq)]
pub enum GClass {
    /// L1 entry or L2 entry all zero: falls through to the backing file / zeros
    Unalloc,
    /// zero flag set (v3); optional preallocation
    Zero { host: u64 },
    Data { host: u64, copied: bool },
    Compressed { off: u64, len: u64 },
}

#[derive(Clone, Copy, Debug, PartialEq, Eq)]
pub enum Owner {
    Header,
    L1,
    RefTable,
    RefBlock(u64),
    L2(u64),
    Data(u64),
    ZeroPrealloc(u64),
    Compressed(u64),
}

pub struct Walk {
    pub hdr: Hdr,
    pub owners: BTreeMap<u64, Vec<Owner>>,
    pub structural: Vec<String>,
    /// class of every guest cluster that is not Unalloc
    pub guest: BTreeMap<u64, GClass>,
    pub l1: Vec<u64>,
    pub reftable: Vec<u64>,
}

/// decode a compressed cluster descriptor: (host byte offset, byte length
/// upper bound) as the specification defines it
pub fn compressed_desc(entry: u64, cluster_bits: u32) -> (u64, u64) {
    let x = 62 - (cluster_bits - 8);
    let off = entry & ((1u64 << x) - 1);
    let nsect = (entry >> x) & ((1u64 << (cluster_bits - 8)) - 1);
    let len = (nsect + 1) * 512 - (off & 511);
    (off, len)
}

pub fn classify_l2(entry: u64, h: &Hdr) -> Result<GClass, String> {
    if entry & (1 << 62) != 0 {
        let (off, len) = compressed_desc(entry, h.cluster_bits);
        if entry & (1 << 63) != 0 {
            return Err(format!("compressed entry {entry:#x} with COPIED flag"));
        }
        return Ok(GClass::Compressed { off, len });
    }
    if entry & 0x3f00_0000_0000_01fe != 0 {
        return Err(format!("L2 entry {entry:#x} has reserved bits set"));
    }
    let host = entry & 0x00ff_ffff_ffff_fe00;
    if host % h.cs() != 0 {
        return Err(format!("L2 entry {entry:#x} host offset not cluster aligned"));
    }
    let copied = entry & (1 << 63) != 0;
    if entry & 1 != 0 {
        if h.version < 3 {
            return Err(format!("L2 entry {entry:#x}: zero flag in a version 2 image"));
        }
        return Ok(GClass::Zero { host });
    }
    if host == 0 {
        if copied {
            return Err(format!("L2 entry {entry:#x}: COPIED without host offset"));
        }
        return Ok(GClass::Unalloc);
    }
    Ok(GClass::Data { host, copied })
}

pub fn walk(img: &dyn Img) -> Result<Walk, String> {
    let hdr = parse_header(img)?;
    let cs = hdr.cs();
    let mut w = Walk {
        hdr: hdr.clone(),
        owners: BTreeMap::new(),
        structural: Vec::new(),
        guest: BTreeMap::new(),
        l1: Vec::new(),
        reftable: Vec::new(),
    };
    let add = |w: &mut Walk, cl: u64, o: Owner| {
        w.owners.entry(cl).or_default().push(o);
    };
    add(&mut w, 0, Owner::Header);
    // L1 table
    let l1_bytes = hdr.l1_size as u64 * 8;
    for c in 0..l1_bytes.div_ceil(cs) {
        add(&mut w, hdr.l1_off / cs + c, Owner::L1);
    }
    // refcount table
    for c in 0..hdr.rt_clusters as u64 {
        add(&mut w, hdr.rt_off / cs + c, Owner::RefTable);
    }
    let rt_raw = img.rd(hdr.rt_off, (hdr.rt_clusters as u64 * cs) as usize);
    for i in 0..(rt_raw.len() / 8) {
        let e = be64(&rt_raw, i * 8);
        w.reftable.push(e);
        if e == 0 {
            continue;
        }
        if e & 0x1ff != 0 {
            w.structural
                .push(format!("reftable[{i}]={e:#x} reserved bits set"));
            continue;
        }
        if e % cs != 0 {
            w.structural
                .push(format!("reftable[{i}]={e:#x} not cluster aligned"));
            continue;
        }
        add(&mut w, e / cs, Owner::RefBlock(i as u64));
    }
    // L1 / L2
    let l1_raw = img.rd(hdr.l1_off, l1_bytes as usize);
    let gcl = hdr.guest_clusters();
    let l2n = hdr.l2_entries();
    for i in 0..hdr.l1_size as u64 {
        let e = be64(&l1_raw, i as usize * 8);
        w.l1.push(e);
        if e == 0 {
            continue;
        }
        if e & 0x7f00_0000_0000_01ff != 0 {
            w.structural
                .push(format!("L1[{i}]={e:#x} reserved bits set"));
            continue;
        }
        let l2off = e & 0x00ff_ffff_ffff_fe00;
        if l2off % cs != 0 {
            w.structural
                .push(format!("L1[{i}]={e:#x} not cluster aligned"));
            continue;
        }
        if l2off == 0 {
            w.structural
                .push(format!("L1[{i}]={e:#x} flags without offset"));
            continue;
        }
        if i >= hdr.l1_needed() {
            w.structural
                .push(format!("L1[{i}]={e:#x} maps beyond the virtual size"));
        }
        add(&mut w, l2off / cs, Owner::L2(i));
        let l2 = img.rd(l2off, cs as usize);
        for j in 0..l2n {
            let le = be64(&l2, j as usize * 8);
            if le == 0 {
                continue;
            }
            let g = i * l2n + j;
            if g >= gcl {
                w.structural.push(format!(
                    "L2[{i}][{j}]={le:#x} maps guest cluster {g} beyond the virtual size"
                ));
                continue;
            }
            match classify_l2(le, &hdr) {
                Err(s) => w.structural.push(format!("guest cluster {g}: {s}")),
                Ok(GClass::Unalloc) => {}
                Ok(c) => {
                    match c {
                        GClass::Data { host, .. } => add(&mut w, host / cs, Owner::Data(g)),
                        GClass::Zero { host } => {
                            if host != 0 {
                                add(&mut w, host / cs, Owner::ZeroPrealloc(g))
                            }
                        }
                        GClass::Compressed { off, len } => {
                            let first = off / cs;
                            let last = (off + len - 1) / cs;
                            for c in first..=last {
                                add(&mut w, c, Owner::Compressed(g));
                            }
                        }
                        GClass::Unalloc => {}
                    }
                    w.guest.insert(g, c);
                }
            }
        }
    }
    if hdr.nb_snapshots != 0 {
        w.structural
            .push("image has snapshots (not supported by this checker)".into());
    }
    Ok(w)
}

/// stored refcount of a host cluster (0 if not covered by any refblock)
pub fn stored_refcount(img: &dyn Img, w: &Walk, cl: u64) -> u64 {
    let h = &w.hdr;
    let rbe = h.rb_entries();
    let rti = (cl / rbe) as usize;
    let e = match w.reftable.get(rti) {
        Some(e) => *e,
        None => return 0,
    };
    if e == 0 || e & 0x1ff != 0 || e % h.cs() != 0 {
        return 0;
    }
    let idx = cl % rbe;
    read_refcount(img, e, idx, h.refcount_order)
}

pub fn read_refcount(img: &dyn Img, rb_off: u64, idx: u64, order: u32) -> u64 {
    let bits = 1u64 << order;
    if bits >= 8 {
        let bytes = (bits / 8) as usize;
        let b = img.rd(rb_off + idx * bytes as u64, bytes);
        let mut v = 0u64;
        for x in b {
            v = (v << 8) | x as u64;
        }
        v
    } else {
        let bitpos = idx * bits;
        let b = img.rd(rb_off + bitpos / 8, 1)[0] as u64;
        (b >> (bitpos % 8)) & ((1 << bits) - 1)
    }
}

pub fn refcount_in_block(block: &[u8], idx: u64, order: u32) -> u64 {
    let bits = 1u64 << order;
    if bits >= 8 {
        let bytes = (bits / 8) as usize;
        let o = idx as usize * bytes;
        let mut v = 0u64;
        for x in &block[o..o + bytes] {
            v = (v << 8) | *x as u64;
        }
        v
    } else {
        let bitpos = idx * bits;
        ((block[(bitpos / 8) as usize] as u64) >> (bitpos % 8)) & ((1 << bits) - 1)
    }
}

pub fn write_refcount(block: &mut [u8], idx: u64, order: u32, val: u64) {
    let bits = 1u64 << order;
    if bits >= 8 {
        let bytes = (bits / 8) as usize;
        let o = idx as usize * bytes;
        for k in 0..bytes {
            block[o + k] = (val >> (8 * (bytes - 1 - k))) as u8;
        }
    } else {
        let bitpos = idx * bits;
        let o = (bitpos / 8) as usize;
        let sh = bitpos % 8;
        let mask = ((1u64 << bits) - 1) << sh;
        block[o] = ((block[o] as u64 & !mask) | ((val << sh) & mask)) as u8;
    }
}

#[derive(Clone, Debug, Default)]
pub struct Verdict {
    pub fatal: Option<String>,
    pub structural: Vec<String>,
    pub undercount: Vec<String>,
    /// (host cluster, stored refcount, owners) of every entry of `undercount`
    pub undercount_info: Vec<(u64, u64, Vec<Owner>)>,
    pub leak: Vec<String>,
    /// host cluster index of every entry of `leak`
    pub leak_clusters: Vec<u64>,
    pub referenced_clusters: usize,
}

impl Verdict {
    /// drop under-count entries for which `f(cluster, stored, owners)` holds
    pub fn forgive_undercounts(&mut self, f: impl Fn(u64, u64, &[Owner]) -> bool) -> usize {
        let mut n = 0;
        let mut i = 0;
        while i < self.undercount_info.len() {
            let (c, s, o) = &self.undercount_info[i];
            if f(*c, *s, o) {
                self.undercount_info.remove(i);
                self.undercount.remove(i);
                n += 1;
            } else {
                i += 1;
            }
        }
        n
    }

    /// drop the leak entries of the given host clusters; returns how many
    pub fn forgive_leaks(&mut self, clusters: &std::collections::BTreeSet<u64>) -> usize {
        let mut n = 0;
        let mut i = 0;
        while i < self.leak_clusters.len() {
            if clusters.contains(&self.leak_clusters[i]) {
                self.leak_clusters.remove(i);
                self.leak.remove(i);
                n += 1;
            } else {
                i += 1;
            }
        }
        n
    }

    pub fn exact_ok(&self) -> bool {
        self.fatal.is_none()
            && self.structural.is_empty()
            && self.undercount.is_empty()
            && self.leak.is_empty()
    }
    pub fn safe_ok(&self) -> bool {
        self.fatal.is_none() && self.structural.is_empty() && self.undercount.is_empty()
    }
    pub fn first_problem(&self, allow_leak: bool) -> Option<(&'static str, String)> {
        if let Some(f) = &self.fatal {
            return Some(("unparsable", f.clone()));
        }
        if let Some(s) = self.structural.first() {
            return Some(("structural", s.clone()));
        }
        if let Some(s) = self.undercount.first() {
            return Some(("undercount", s.clone()));
        }
        if !allow_leak {
            if let Some(s) = self.leak.first() {
                return Some(("leak", s.clone()));
            }
        }
        None
    }
}

/// Full consistency check.  `exact`: also COPIED-flag exactness.
pub fn check_image(img: &dyn Img, exact: bool) -> Verdict {
    let mut v = Verdict::default();
    let w = match walk(img) {
        Ok(w) => w,
        Err(e) => {
            v.fatal = Some(e);
            return v;
        }
    };
    check_walk(img, &w, exact, &mut v);
    v
}

pub fn check_walk(img: &dyn Img, w: &Walk, exact: bool, v: &mut Verdict) {
    let h = &w.hdr;
    let cs = h.cs();
    v.structural.extend(w.structural.iter().cloned());
    v.referenced_clusters = w.owners.len();
    let maxv = if h.refcount_order == 6 {
        u64::MAX
    } else {
        (1u64 << h.refcount_bits()) - 1
    };
    for (cl, owners) in &w.owners {
        let refs = owners.len() as u64;
        // a cluster may be referenced more than once only by compressed data
        if refs > 1 && !owners.iter().all(|o| matches!(o, Owner::Compressed(_))) {
            v.structural.push(format!(
                "host cluster {cl} ({:#x}) referenced {} times: {:?}",
                cl * cs,
                refs,
                owners
            ));
        }
        if *cl == 0 && owners.len() > 1 {
            // already reported above as double reference
        }
        let stored = stored_refcount(img, w, *cl);
        if stored < refs {
            v.undercount.push(format!(
                "host cluster {cl} ({:#x}) refcount {stored} < {refs} references {:?}",
                cl * cs,
                owners
            ));
            v.undercount_info.push((*cl, stored, owners.clone()));
        } else if stored > refs {
            v.leak.push(format!(
                "host cluster {cl} ({:#x}) refcount {stored} > {refs} references",
                cl * cs
            ));
            v.leak_clusters.push(*cl);
        }
        let _ = maxv;
    }
    // leaks: clusters with a stored refcount and no reference
    let rbe = h.rb_entries();
    for (i, e) in w.reftable.iter().enumerate() {
        if *e == 0 || e & 0x1ff != 0 || e % cs != 0 {
            continue;
        }
        let block = img.rd(*e, cs as usize);
        if block.iter().all(|b| *b == 0) {
            continue;
        }
        let bits = h.refcount_bits();
        for idx in 0..rbe {
            // fast skip over zero bytes
            if bits < 8 {
                if (idx * bits) % 8 == 0 && block[(idx * bits / 8) as usize] == 0 {
                    continue;
                }
            }
            let stored = refcount_in_block(&block, idx, h.refcount_order);
            if stored != 0 {
                let cl = i as u64 * rbe + idx;
                if !w.owners.contains_key(&cl) {
                    v.leak.push(format!(
                        "host cluster {cl} ({:#x}) refcount {stored}, no reference",
                        cl * cs
                    ));
                    v.leak_clusters.push(cl);
                }
            }
        }
    }
    if exact {
        // COPIED flags: set exactly when the refcount is one
        for (i, e) in w.l1.iter().enumerate() {
            if *e == 0 || e & 0x7f00_0000_0000_01ff != 0 {
                continue;
            }
            let off = e & 0x00ff_ffff_ffff_fe00;
            if off == 0 || off % cs != 0 {
                continue;
            }
            let copied = e & (1 << 63) != 0;
            let stored = stored_refcount(img, w, off / cs);
            if copied != (stored == 1) {
                v.structural.push(format!(
                    "L1[{i}]={e:#x}: COPIED={copied} but refcount of the L2 table is {stored}"
                ));
            }
        }
        for (g, c) in &w.guest {
            if let GClass::Data { host, copied } = c {
                let stored = stored_refcount(img, w, host / cs);
                if *copied != (stored == 1) {
                    v.structural.push(format!(
                        "guest cluster {g}: COPIED={copied} but refcount of {host:#x} is {stored}"
                    ));
                }
            }
        }
    }
}

impl Img for [u8] {
    fn size(&self) -> u64 {
        self.len() as u64
    }
    fn rd(&self, off: u64, len: usize) -> Vec<u8> {
        let mut v = vec![0u8; len];
        if (off as usize) < self.len() {
            let n = std::cmp::min(len, self.len() - off as usize);
            v[..n].copy_from_slice(&self[off as usize..off as usize + n]);
        }
        v
    }
}

// ---------------------------------------------------------------------------
// reader
// ---------------------------------------------------------------------------

pub fn guest_class(img: &dyn Img, h: &Hdr, g: u64) -> Result<GClass, String> {
    let l2n = h.l2_entries();
    let i = g / l2n;
    if i >= h.l1_size as u64 {
        return Ok(GClass::Unalloc);
    }
    let e = be64(&img.rd(h.l1_off + i * 8, 8), 0);
    let l2off = e & 0x00ff_ffff_ffff_fe00;
    if l2off == 0 {
        return Ok(GClass::Unalloc);
    }
    let le = be64(&img.rd(l2off + (g % l2n) * 8, 8), 0);
    classify_l2(le, h)
}

pub fn inflate_cluster(img: &dyn Img, h: &Hdr, off: u64, len: u64) -> Result<Vec<u8>, String> {
    let raw = img.rd(off, len as usize);
    let cs = h.cs() as usize;
    let mut out = vec![0u8; cs];
    let mut dec = miniz_oxide::inflate::core::DecompressorOxide::new();
    let (st, _r, wr) = miniz_oxide::inflate::core::decompress(
        &mut dec,
        &raw,
        &mut out,
        0,
        miniz_oxide::inflate::core::inflate_flags::TINFL_FLAG_USING_NON_WRAPPING_OUTPUT_BUF,
    );
    use miniz_oxide::inflate::TINFLStatus as S;
    match st {
        S::Done | S::HasMoreOutput => {
            if wr < cs && st == S::Done {
                // shorter than a cluster: rest is zero per buffer init
            }
            Ok(out)
        }
        other => Err(format!("inflate failed: {other:?}")),
    }
}

/// read one whole guest cluster of this image layer; None = falls through to
/// the backing chain
pub fn read_guest_cluster(img: &dyn Img, h: &Hdr, g: u64) -> Result<Option<Vec<u8>>, String> {
    let cs = h.cs() as usize;
    match guest_class(img, h, g)? {
        GClass::Unalloc => Ok(None),
        GClass::Zero { .. } => Ok(Some(vec![0u8; cs])),
        GClass::Data { host, .. } => Ok(Some(img.rd(host, cs))),
        GClass::Compressed { off, len } => inflate_cluster(img, h, off, len).map(Some),
    }
}

// ---------------------------------------------------------------------------
// builder
// ---------------------------------------------------------------------------

#[derive(Clone, Debug, PartialEq, Eq)]
pub enum GSpec {
    Unalloc,
    /// plain data cluster; content = sector ids base..base+cs/512
    Data(u64),
    ZeroPlain,
    ZeroPrealloc,
    /// compressed cluster; content = compressible ids from base
    Compressed(u64),
}

#[derive(Clone, Debug)]
pub struct BuildSpec {
    pub cluster_bits: u32,
    pub refcount_order: u32,
    pub version: u32,
    pub vsize: u64,
    pub guest: BTreeMap<u64, GSpec>,
    pub backing: Option<String>,
    /// 0 = sequential (like qemu-img), 1 = scattered, 2 = reverse
    pub layout: u32,
    /// percent of extra free clusters sprinkled between allocations
    pub slack_pct: u32,
    /// header lists only as many L1 entries as are in use (min 1)
    pub l1_short: bool,
    /// extra empty L2 tables for these L1 indices
    pub empty_l2: Vec<u64>,
    /// add a feature name table + unknown extension
    pub extra_ext: bool,
    /// pad file to a cluster multiple (else to a sector multiple)
    pub pad_cluster: bool,
    /// extra clusters given to the refcount table beyond the minimum
    pub rt_extra_clusters: u32,
    /// L1 table gets room (allocated clusters) for all needed entries even
    /// when the header lists fewer
    pub l1_room_full: bool,
    /// fill free host clusters (refcount 0) inside the file, and this many
    /// extra clusters behind its last used one, with stale junk data - what a
    /// file that has seen allocations and frees looks like
    pub junk_tail: u32,
}

#[derive(Clone, Debug)]
pub struct Built {
    pub bytes: Vec<u8>,
    /// host offset of each guest data cluster placed (for diagnostics)
    pub host_of: BTreeMap<u64, u64>,
    pub host_clusters: u64,
}

pub fn cluster_ids(base: u64, cs: u64) -> impl Iterator<Item = u64> {
    (0..cs / 512).map(move |s| base + s)
}

pub fn cluster_bytes(base: u64, cs: u64) -> Vec<u8> {
    let mut v = vec![0u8; cs as usize];
    content::fill(cluster_ids(base, cs), &mut v);
    v
}

fn put64(b: &mut [u8], o: usize, v: u64) {
    b[o..o + 8].copy_from_slice(&v.to_be_bytes());
}
fn put32(b: &mut [u8], o: usize, v: u32) {
    b[o..o + 4].copy_from_slice(&v.to_be_bytes());
}

struct Placer {
    used: Vec<bool>,
    layout: u32,
    cursor: u64,
}

impl Placer {
    fn grow(&mut self, n: u64) {
        if (self.used.len() as u64) < n {
            self.used.resize(n as usize, false);
        }
    }
    fn run_free(&self, at: u64, n: u64) -> bool {
        (at..at + n).all(|c| (c as usize) >= self.used.len() || !self.used[c as usize])
    }
    fn take(&mut self, at: u64, n: u64) {
        self.grow(at + n);
        for c in at..at + n {
            self.used[c as usize] = true;
        }
    }
    /// place n contiguous clusters
    fn place(&mut self, n: u64, rng: &mut Rng, span: u64, avoid: &dyn Fn(u64) -> bool) -> u64 {
        match self.layout {
            0 => {
                // sequential
                let mut at = self.cursor;
                loop {
                    if self.run_free(at, n) && !(at..at + n).any(avoid) {
                        break;
                    }
                    at += 1;
                }
                self.take(at, n);
                self.cursor = at + n;
                at
            }
            _ => {
                for _ in 0..64 {
                    let at = 1 + rng.below(span.saturating_sub(n).max(1));
                    if self.run_free(at, n) && !(at..at + n).any(avoid) {
                        self.take(at, n);
                        return at;
                    }
                }
                // fall back: first fit from a random start, then beyond span
                let mut at = 1;
                loop {
                    if self.run_free(at, n) && !(at..at + n).any(avoid) {
                        self.take(at, n);
                        return at;
                    }
                    at += 1;
                }
            }
        }
    }
}

pub fn build(spec: &BuildSpec, rng: &mut Rng) -> Built {
    let cs = 1u64 << spec.cluster_bits;
    let l2n = cs / 8;
    let gcl = spec.vsize.div_ceil(cs);
    let l1_needed = gcl.div_ceil(l2n).max(1);
    let order = if spec.version == 2 { 4 } else { spec.refcount_order };
    let rbe = cs * 8 / (1u64 << order);

    // which L2 tables exist
    let mut l2_idx: Vec<u64> = spec
        .guest
        .iter()
        .filter(|(_, s)| **s != GSpec::Unalloc)
        .map(|(g, _)| g / l2n)
        .collect();
    l2_idx.extend(spec.empty_l2.iter().copied().filter(|i| *i < l1_needed));
    l2_idx.sort();
    l2_idx.dedup();
    let l1_used = l2_idx.last().map(|x| x + 1).unwrap_or(0);
    let l1_size = if spec.l1_short {
        l1_used.max(1)
    } else {
        l1_needed
    };
    let l1_alloc_entries = if spec.l1_room_full { l1_needed } else { l1_size };
    let l1_clusters = (l1_alloc_entries * 8).div_ceil(cs).max(1);

    // compressed payloads
    let mut comp: Vec<(u64, Vec<u8>)> = Vec::new();
    for (g, s) in &spec.guest {
        if let GSpec::Compressed(base) = s {
            let raw = cluster_bytes(*base, cs);
            let level = 1 + (rng.below(9) as u8);
            let mut c = miniz_oxide::deflate::compress_to_vec(&raw, level);
            // a compressed cluster must be smaller than a cluster (else it
            // would be stored uncompressed); compressible ids always are
            assert!((c.len() as u64) < cs, "compressible content did not compress");
            if rng.below(4) == 0 {
                // trailing garbage inside the last sector is legal: readers
                // must stop at the end of the deflate stream
                let pad = rng.below(8) as usize;
                c.extend(std::iter::repeat(0xEE).take(pad));
                if c.len() as u64 >= cs {
                    c.truncate(cs as usize - 1);
                }
            }
            comp.push((*g, c));
        }
    }
    // worst case per blob: its bytes, a gap of < 64, rounding to a sector
    let comp_bytes: u64 = 512 + comp.iter().map(|(_, c)| c.len() as u64 + 64 + 512).sum::<u64>();
    // a host cluster can be shared by at most (max refcount) compressed clusters
    let max_ref: u64 = if order >= 6 { u64::MAX } else { (1u64 << (1u64 << order)) - 1 };
    let comp_clusters = if comp.is_empty() {
        0
    } else {
        comp_bytes.div_ceil(cs) + 1 + (comp.len() as u64).div_ceil(max_ref.min(1 << 20)) * 2
    };
    let n_data = spec
        .guest
        .values()
        .filter(|s| matches!(s, GSpec::Data(_) | GSpec::ZeroPrealloc))
        .count() as u64;

    // size the host span
    let base_items = 1 + l1_clusters + l2_idx.len() as u64 + n_data + comp_clusters;
    let mut span = base_items + 2;
    let mut n_rb;
    let mut rt_clusters;
    loop {
        let with_slack = span + span * spec.slack_pct as u64 / 100 + 2;
        n_rb = with_slack.div_ceil(rbe);
        rt_clusters = (n_rb * 8).div_ceil(cs).max(1) + spec.rt_extra_clusters as u64;
        let need = base_items + n_rb + rt_clusters;
        if need <= span {
            span = with_slack;
            break;
        }
        span = need;
    }
    n_rb = span.div_ceil(rbe);
    // (rt_clusters computed for a span that is >= final span)
    let mut pl = Placer {
        used: vec![false; span as usize],
        layout: spec.layout,
        cursor: 1,
    };
    pl.used[0] = true;
    let no_avoid = |_c: u64| false;

    let rt_at = pl.place(rt_clusters, rng, span, &no_avoid);
    let l1_at = pl.place(l1_clusters, rng, span, &no_avoid);
    let mut rb_at: Vec<u64> = Vec::new();
    for _ in 0..n_rb {
        rb_at.push(pl.place(1, rng, span, &no_avoid));
    }
    let mut l2_at: BTreeMap<u64, u64> = BTreeMap::new();
    for i in &l2_idx {
        l2_at.insert(*i, pl.place(1, rng, span, &no_avoid));
    }
    let comp_at = if comp_clusters > 0 {
        pl.place(comp_clusters, rng, span, &no_avoid)
    } else {
        0
    };
    let mut host_of: BTreeMap<u64, u64> = BTreeMap::new();
    // data clusters; with sequential layout occasionally leave gaps
    for (g, s) in &spec.guest {
        if matches!(s, GSpec::Data(_) | GSpec::ZeroPrealloc) {
            if spec.layout == 0 && spec.slack_pct > 0 && rng.below(100) < spec.slack_pct as u64 {
                pl.cursor += 1;
            }
            let at = pl.place(1, rng, span, &no_avoid);
            host_of.insert(*g, at * cs);
        }
    }
    let host_clusters = pl.used.len() as u64;
    // refblocks must cover every used cluster
    let n_rb_final = host_clusters.div_ceil(rbe);
    while (rb_at.len() as u64) < n_rb_final {
        // place further refblocks (they may extend the span; loop until stable)
        let at = pl.place(1, rng, host_clusters, &no_avoid);
        rb_at.push(at);
    }
    let host_clusters = pl.used.len() as u64;
    let n_rb_final = host_clusters.div_ceil(rbe);
    assert!(rb_at.len() as u64 >= n_rb_final);
    assert!((rb_at.len() as u64) * 8 <= rt_clusters * cs, "reftable too small");

    let mut file_len = host_clusters * cs;
    let mut img = vec![0u8; file_len as usize];

    // L2 tables + data
    let mut l2bufs: BTreeMap<u64, Vec<u8>> =
        l2_idx.iter().map(|i| (*i, vec![0u8; cs as usize])).collect();
    // compressed blobs packed back to back at arbitrary byte offsets
    let mut cpos = comp_at * cs + if comp.is_empty() { 0 } else { rng.below(512) };
    let comp_end = (comp_at + comp_clusters) * cs;
    let mut comp_last_end = 0u64;
    let mut comp_share: BTreeMap<u64, u64> = BTreeMap::new();
    for (g, c) in &comp {
        let l2 = l2bufs.get_mut(&(g / l2n)).unwrap();
        // respect the refcount width: move to a fresh cluster when a cluster
        // this blob would touch is already shared max_ref times
        loop {
            let first = cpos / cs;
            let last = ((cpos + c.len() as u64 - 1) | 511) / cs;
            if (first..=last).all(|k| comp_share.get(&k).copied().unwrap_or(0) < max_ref) {
                break;
            }
            cpos = (cpos / cs + 1) * cs;
        }
        let off = cpos;
        let end = off + c.len() as u64;
        for k in (off / cs)..=(((end - 1) | 511) / cs) {
            *comp_share.entry(k).or_insert(0) += 1;
        }
        assert!(end.div_ceil(512) * 512 <= comp_end);
        img[off as usize..end as usize].copy_from_slice(c);
        let nsect = ((end - 1) >> 9) - (off >> 9);
        let x = 62 - (spec.cluster_bits - 8);
        let e = (1u64 << 62) | (nsect << x) | off;
        put64(l2, ((g % l2n) * 8) as usize, e);
        comp_last_end = end.div_ceil(512) * 512;
        // next blob: sometimes directly adjacent, sometimes sector aligned,
        // sometimes ending exactly on a cluster boundary
        cpos = match rng.below(3) {
            0 => end,
            1 => end.div_ceil(512) * 512,
            _ => end + rng.below(64),
        };
    }
    for (g, s) in &spec.guest {
        let idx = ((g % l2n) * 8) as usize;
        match s {
            GSpec::Data(base) => {
                let host = host_of[g];
                img[host as usize..(host + cs) as usize].copy_from_slice(&cluster_bytes(*base, cs));
                let l2 = l2bufs.get_mut(&(g / l2n)).unwrap();
                put64(l2, idx, (1u64 << 63) | host);
            }
            GSpec::ZeroPlain => {
                let l2 = l2bufs.get_mut(&(g / l2n)).unwrap();
                put64(l2, idx, 1);
            }
            GSpec::ZeroPrealloc => {
                let host = host_of[g];
                // preallocated cluster holds stale garbage that must never be read
                let junk = cluster_bytes(0x7e00_0000 + g * (cs / 512), cs);
                img[host as usize..(host + cs) as usize].copy_from_slice(&junk);
                let l2 = l2bufs.get_mut(&(g / l2n)).unwrap();
                put64(l2, idx, (1u64 << 63) | host | 1);
            }
            GSpec::Compressed(_) | GSpec::Unalloc => {}
        }
    }
    for (i, b) in &l2bufs {
        let at = l2_at[i] * cs;
        img[at as usize..(at + cs) as usize].copy_from_slice(b);
    }
    // L1
    for i in &l2_idx {
        put64(
            &mut img,
            (l1_at * cs + i * 8) as usize,
            (1u64 << 63) | (l2_at[i] * cs),
        );
    }
    if spec.l1_short {
        // what lies behind the listed entries inside the table's clusters is
        // not part of the table: left-overs that look like entries
        let stale = l2_idx.first().map(|i| l2_at[i] * cs).unwrap_or(l1_at * cs);
        for i in l1_size..(l1_clusters * cs / 8) {
            put64(&mut img, (l1_at * cs + i * 8) as usize, (1u64 << 63) | stale);
        }
    }
    // reftable
    for (i, at) in rb_at.iter().enumerate() {
        if (i as u64) < n_rb_final {
            put64(&mut img, (rt_at * cs + i as u64 * 8) as usize, at * cs);
        }
    }
    // header
    let mut hb = vec![0u8; cs as usize];
    put32(&mut hb, 0, MAGIC);
    put32(&mut hb, 4, spec.version);
    put32(&mut hb, 20, spec.cluster_bits);
    put64(&mut hb, 24, spec.vsize);
    put32(&mut hb, 36, l1_size as u32);
    put64(&mut hb, 40, l1_at * cs);
    put64(&mut hb, 48, rt_at * cs);
    put32(&mut hb, 56, rt_clusters as u32);
    let mut pos = if spec.version >= 3 {
        put32(&mut hb, 96, order);
        let hl = if rng.below(2) == 0 { 104 } else { 112 };
        put32(&mut hb, 100, hl);
        hl as usize
    } else {
        72
    };
    let mut exts: Vec<(u32, Vec<u8>)> = Vec::new();
    if spec.backing.is_some() {
        exts.push((0xe279_2aca, b"qcow2".to_vec()));
    }
    if spec.extra_ext && spec.version >= 3 {
        let mut t = vec![0u8; 48 * 2];
        t[0] = 0;
        t[1] = 0;
        t[2..2 + 9].copy_from_slice(b"dirty bit");
        t[48] = 1;
        t[49] = 0;
        t[50..50 + 14].copy_from_slice(b"lazy refcounts");
        exts.push((0x6803_f857, t));
        exts.push((0x1234_5678, vec![1, 2, 3, 4, 5]));
    }
    // version 2 images carry extensions too (backing format), but keep the
    // space after the 72-byte header simple when there is nothing to say
    for (ty, data) in &exts {
        if pos + 8 + data.len() + 16 + 1100 > cs as usize {
            break;
        }
        put32(&mut hb, pos, *ty);
        put32(&mut hb, pos + 4, data.len() as u32);
        hb[pos + 8..pos + 8 + data.len()].copy_from_slice(data);
        pos += 8 + data.len().div_ceil(8) * 8;
    }
    pos += 8; // end marker (zeros)
    if let Some(b) = &spec.backing {
        put64(&mut hb, 8, pos as u64);
        put32(&mut hb, 16, b.len() as u32);
        hb[pos..pos + b.len()].copy_from_slice(b.as_bytes());
    }
    img[..cs as usize].copy_from_slice(&hb);

    // refcounts: count references with the walker and store them
    let w = walk(&img).expect("builder produced an unparsable image");
    assert!(
        w.structural.is_empty(),
        "builder produced a structurally invalid image: {:?}",
        w.structural
    );
    for (cl, owners) in &w.owners {
        let rbi = (cl / rbe) as usize;
        let at = rb_at[rbi] * cs;
        write_refcount(
            &mut img[at as usize..(at + cs) as usize],
            cl % rbe,
            order,
            owners.len() as u64,
        );
    }
    // file length: trim trailing unused clusters; pad to cluster or sector
    let last_used = w.owners.keys().next_back().copied().unwrap_or(0);
    let mut end = (last_used + 1) * cs;
    if comp_last_end > 0 && !spec.pad_cluster {
        // if the compressed area is last, the file may end at a sector boundary
        if comp_last_end > (last_used) * cs && comp_last_end <= end {
            end = comp_last_end.max(last_used * cs + 512);
        }
    }
    file_len = end;
    img.truncate(file_len as usize);
    if spec.junk_tail > 0 {
        let total = file_len.div_ceil(cs) + spec.junk_tail as u64;
        img.resize((total * cs) as usize, 0);
        for cl in 1..total {
            if !w.owners.contains_key(&cl) {
                let junk = cluster_bytes(0x7f00_0000_0000 + cl * (cs / 512), cs);
                img[(cl * cs) as usize..((cl + 1) * cs) as usize].copy_from_slice(&junk);
            }
        }
        file_len = total * cs;
    }
    Built {
        bytes: img,
        host_of,
        host_clusters: file_len.div_ceil(cs),
    }
}
