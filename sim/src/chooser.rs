//! One integer decides everything: every random decision of a run is a call
//! to `Chooser::pick`.  In generation mode values come from a xoshiro256**
//! stream seeded from (VERIF_SEED, run index, stream id); in replay mode they
//! come from a recorded list (clamped `mod n`, 0 once the list is exhausted).
//! Nothing here reads a clock or any other ambient source.

#[derive(Clone, Debug)]
pub struct Rng {
    s: [u64; 4],
}

pub fn splitmix64(x: &mut u64) -> u64 {
    *x = x.wrapping_add(0x9e37_79b9_7f4a_7c15);
    let mut z = *x;
    z = (z ^ (z >> 30)).wrapping_mul(0xbf58_476d_1ce4_e5b9);
    z = (z ^ (z >> 27)).wrapping_mul(0x94d0_49bb_1331_11eb);
    z ^ (z >> 31)
}

pub fn mix(a: u64, b: u64) -> u64 {
    let mut x = a ^ b.rotate_left(32) ^ 0x5851_f42d_4c95_7f2d;
    let r = splitmix64(&mut x);
    r ^ splitmix64(&mut x).rotate_left(17)
}

impl Rng {
    pub fn new(seed: u64) -> Self {
        let mut x = seed;
        let s = [
            splitmix64(&mut x),
            splitmix64(&mut x),
            splitmix64(&mut x),
            splitmix64(&mut x),
        ];
        Rng { s }
    }

    pub fn next(&mut self) -> u64 {
        let result = self.s[1].wrapping_mul(5).rotate_left(7).wrapping_mul(9);
        let t = self.s[1] << 17;
        self.s[2] ^= self.s[0];
        self.s[3] ^= self.s[1];
        self.s[1] ^= self.s[2];
        self.s[0] ^= self.s[3];
        self.s[2] ^= t;
        self.s[3] = self.s[3].rotate_left(45);
        result
    }

    /// uniform in [0, n), n >= 1
    pub fn below(&mut self, n: u64) -> u64 {
        debug_assert!(n > 0);
        if n <= 1 {
            return 0;
        }
        // multiply-shift; bias is irrelevant here
        ((self.next() as u128 * n as u128) >> 64) as u64
    }

    pub fn range(&mut self, lo: u64, hi_incl: u64) -> u64 {
        lo + self.below(hi_incl - lo + 1)
    }

    pub fn chance(&mut self, num: u64, den: u64) -> bool {
        self.below(den) < num
    }

    pub fn pick<'a, T>(&mut self, v: &'a [T]) -> &'a T {
        &v[self.below(v.len() as u64) as usize]
    }

    /// index chosen by weight
    pub fn weighted(&mut self, w: &[u32]) -> usize {
        let total: u64 = w.iter().map(|x| *x as u64).sum();
        let mut r = self.below(total.max(1));
        for (i, x) in w.iter().enumerate() {
            if r < *x as u64 {
                return i;
            }
            r -= *x as u64;
        }
        w.len() - 1
    }
}

/// The schedule chooser: records every decision so that a run can be replayed
/// (and its decision list minimised) without the PRNG.
pub struct Chooser {
    rng: Rng,
    replay: Option<Vec<u32>>,
    pos: usize,
    pub rec: Vec<u32>,
    pub record: bool,
}

impl Chooser {
    pub fn generate(seed: u64) -> Self {
        Chooser {
            rng: Rng::new(seed),
            replay: None,
            pos: 0,
            rec: Vec::new(),
            record: true,
        }
    }

    pub fn replay(list: Vec<u32>) -> Self {
        Chooser {
            rng: Rng::new(0),
            replay: Some(list),
            pos: 0,
            rec: Vec::new(),
            record: true,
        }
    }

    /// value in [0, n)
    pub fn pick(&mut self, n: u64) -> u64 {
        let v = if n <= 1 {
            0
        } else {
            match &self.replay {
                Some(l) => {
                    let v = l.get(self.pos).copied().unwrap_or(0) as u64;
                    v % n
                }
                None => self.rng.below(n),
            }
        };
        self.pos += 1;
        if self.record {
            self.rec.push(v as u32);
        }
        v
    }

    pub fn decisions(&self) -> usize {
        self.pos
    }
}
