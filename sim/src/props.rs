//! Per-property profiles: which generator distribution, which oracles, how
//! many runs; and the function that executes one run of a profile.
use crate::chooser::{mix, Chooser, Rng};
use crate::workload::{gen_cfg, gen_steps, Cfg, GenOpts, Step};
use crate::world::{Oracles, Viol, World};
use serde_json::{json, Value};
use std::cell::RefCell;
use std::collections::BTreeMap;

#[derive(Clone, Debug, PartialEq)]
pub enum Kind {
    /// generic engine: sequential / concurrent histories with oracles
    Engine,
    Crash,
    Fault,
    Conformance,
    Malformed,
    Backends,
    Cli,
}

#[derive(Clone, Debug)]
pub struct Profile {
    pub id: &'static str,
    pub kind: Kind,
    pub gen: GenOpts,
    pub oracles: Oracles,
    pub quick: u64,
    pub thorough: u64,
}

pub fn profile(id: &str) -> Option<Profile> {
    let mut g = GenOpts::default();
    let mut o = Oracles::default();
    let (kind, quick, thorough) = match id {
        "C01" => {
            g.l1_short_pct = 8;
            o.flush_reopen = false;
            o.need_flush = false;
            (Kind::Engine, 6000, 300_000)
        }
        "C02" => {
            g.tiny_cache_pct = 75;
            g.op_weights = [40, 10, 12, 14, 5, 8, 1, 0, 2];
            g.hot_clusters = 4;
            o.snapshot = false;
            o.need_flush = false;
            (Kind::Engine, 5000, 200_000)
        }
        "C03" => {
            g.tiny_cache_pct = 60;
            g.l1_short_pct = 8;
            g.frag_pct = 15;
            g.op_weights = [40, 5, 15, 14, 4, 6, 0, 0, 1];
            o.flush_reopen = false;
            o.need_flush = false;
            o.readback = false;
            (Kind::Engine, 5000, 200_000)
        }
        "C06" => {
            g.par_pct = 70;
            g.max_clients = 6;
            g.max_ops_per_client = 3;
            g.hot_clusters = 3;
            g.tiny_cache_pct = 60;
            g.cb_weights = [40, 12, 8, 20, 4, 4, 1, 0];
            g.op_weights = [45, 25, 15, 6, 3, 0, 1, 0, 2];
            g.min_ops = 6;
            g.max_ops = 30;
            o.flush_reopen = false;
            o.snapshot = false;
            o.need_flush = false;
            o.sweep_every = 0;
            (Kind::Engine, 24000, 600_000)
        }
        "C07" => {
            g.growth_pct = 4;
            g.l1_short_pct = 6;
            g.par_pct = 80;
            g.max_clients = 8;
            g.max_ops_per_client = 4;
            g.hot_clusters = 4;
            g.tiny_cache_pct = 85;
            g.cb_weights = [40, 12, 8, 20, 4, 4, 1, 0];
            g.op_weights = [45, 20, 12, 10, 8, 0, 1, 0, 2];
            g.min_ops = 8;
            g.max_ops = 40;
            o.flush_reopen = false;
            o.flush_check = false;
            o.snapshot = false;
            o.need_flush = false;
            o.readback = false;
            o.sweep_every = 0;
            (Kind::Engine, 24000, 600_000)
        }
        "C08" => {
            g.frag_pct = 20;
            g.l1_short_pct = 8;
            g.growth_pct = 3;
            g.reuse_cycles_pct = 12;
            g.par_pct = 25;
            g.tiny_cache_pct = 50;
            g.op_weights = [50, 5, 25, 6, 3, 3, 0, 0, 2];
            g.hot_clusters = 5;
            g.max_write_clusters = 12;
            o.flush_reopen = false;
            o.need_flush = false;
            (Kind::Engine, 5000, 250_000)
        }
        "C10" => {
            g.force_builder = true;
            g.allow_compressed = true;
            g.force_compressed = true;
            g.allow_backing = true;
            g.backing_pct = 65;
            g.tiny_cache_pct = 65;
            g.op_weights = [46, 18, 8, 12, 3, 8, 0, 0, 3];
            g.par_pct = 15;
            g.hot_clusters = 5;
            o.need_flush = false;
            (Kind::Engine, 5000, 200_000)
        }
        "C11" => {
            g.op_weights = [30, 10, 40, 8, 2, 5, 0, 0, 3];
            g.hot_clusters = 5;
            // overlapping discards from several tasks, with flushes and
            // writes around them
            g.par_pct = 20;
            g.max_clients = 4;
            o.need_flush = false;
            (Kind::Engine, 5000, 200_000)
        }
        "C13" => {
            g.op_weights = [20, 8, 6, 4, 1, 3, 0, 50, 2];
            g.read_only_pct = 30;
            o.flush_reopen = false;
            o.need_flush = false;
            (Kind::Engine, 4000, 100_000)
        }
        "C16" => {
            g.growth_pct = 4;
            g.l1_short_pct = 6;
            g.allow_big_bs = true;
            g.force_compressed = false;
            g.op_weights = [40, 25, 12, 8, 3, 6, 1, 0, 3];
            g.par_pct = 15;
            o.flush_reopen = false;
            o.snapshot = false;
            o.need_flush = false;
            (Kind::Engine, 5000, 200_000)
        }
        "C18" => {
            g.par_pct = 60;
            g.l1_short_pct = 6;
            g.max_clients = 5;
            g.tiny_cache_pct = 60;
            g.op_weights = [45, 5, 15, 20, 8, 0, 0, 0, 2];
            g.cb_weights = [40, 12, 8, 20, 4, 4, 1, 0];
            o.flush_reopen = false;
            o.snapshot = true;
            o.need_flush = true;
            o.readback = false;
            o.par_fault_pct = 15;
            (Kind::Engine, 15000, 300_000)
        }
        "C04" => (Kind::Crash, 5000, 60_000),
        "C05" => (Kind::Crash, 1500, 40_000),
        "C12" => (Kind::Crash, 240, 15_000),
        "C17" => (Kind::Fault, 500, 12_000),
        "C09" => (Kind::Conformance, 3000, 150_000),
        "C14" => (Kind::Malformed, 20_000, 1_000_000),
        "C19" => (Kind::Backends, 200, 5_000),
        "C20" => (Kind::Cli, 600, 20_000),
        _ => return None,
    };
    let mut p = Profile {
        id: Box::leak(id.to_string().into_boxed_str()),
        kind,
        gen: g,
        oracles: o,
        quick,
        thorough,
    };
    if p.kind == Kind::Crash {
        crate::crashrun::crash_gen(&mut p);
    }
    if p.kind == Kind::Fault {
        crate::faultrun::fault_gen(&mut p);
    }
    if p.kind == Kind::Conformance {
        crate::confrun::conf_gen(&mut p);
    }
    if p.kind == Kind::Malformed {
        crate::malrun::mal_gen(&mut p);
    }
    if p.kind == Kind::Backends {
        crate::backrun::back_gen(&mut p);
    }
    if p.kind == Kind::Cli {
        crate::clirun::cli_gen(&mut p);
    }
    Some(p)
}

thread_local! {
    static PANIC_INFO: RefCell<Option<String>> = const { RefCell::new(None) };
    /// the property whose check is running (profile id)
    pub static CURRENT_PROP: std::cell::Cell<&'static str> = const { std::cell::Cell::new("") };
    /// what the run was doing (appended to a panic report)
    pub static PANIC_CTX: RefCell<String> = const { RefCell::new(String::new()) };
    /// set by the concurrent engine when the current run contained a discard
    /// racing with a write to the same guest cluster (known finding KF02)
    pub static KF02_TAINT: std::cell::Cell<bool> = const { std::cell::Cell::new(false) };
}

pub fn install_panic_hook() {
    std::panic::set_hook(Box::new(|info| {
        let loc = info
            .location()
            .map(|l| format!("{}:{}", l.file(), l.line()))
            .unwrap_or_default();
        let msg = if let Some(s) = info.payload().downcast_ref::<&str>() {
            s.to_string()
        } else if let Some(s) = info.payload().downcast_ref::<String>() {
            s.clone()
        } else {
            "?".into()
        };
        let ctx = PANIC_CTX.with(|c| c.borrow().clone());
        let ctx = if ctx.is_empty() { ctx } else { format!(" [{ctx}]") };
        PANIC_INFO.with(|p| *p.borrow_mut() = Some(format!("{loc}: {msg}{ctx}")));
    }));
}

pub fn take_panic() -> String {
    PANIC_INFO
        .with(|p| p.borrow_mut().take())
        .unwrap_or_else(|| "panic (no info)".into())
}

pub fn panic_sig(info: &str) -> String {
    // file:line without the message; library paths only
    let loc = info.split(": ").next().unwrap_or("");
    let short = loc
        .rsplit(concat!(env!("QSIM_REPO_DIR"), "/"))
        .next()
        .unwrap_or(loc);
    format!("panic/{short}")
}

#[derive(Clone, Debug, Default)]
pub struct RunOut {
    pub run: u64,
    pub viols: Vec<Viol>,
    pub steps: u64,
    pub reqs: u64,
    pub fingerprint: u64,
    pub geo: String,
    pub cfg_hash: u64,
    pub nontrivial: bool,
    pub stats: BTreeMap<String, u64>,
    pub probes: BTreeMap<String, u64>,
    pub faults: BTreeMap<String, u64>,
    pub sample: Option<Value>,
    pub sched: Vec<u32>,
    pub cfg: Option<Cfg>,
    pub steps_list: Option<Vec<Step>>,
    pub extra: Value,
}

impl RunOut {
    pub fn to_json(&self, with_case: bool) -> Value {
        let viols: Vec<Value> = self
            .viols
            .iter()
            .map(|v| json!({"props": v.props, "sig": v.sig, "detail": v.detail, "step": v.step, "nonfatal": v.nonfatal}))
            .collect();
        let mut j = json!({
            "run": self.run,
            "viols": viols,
            "steps": self.steps,
            "reqs": self.reqs,
            "fp": format!("{:016x}", self.fingerprint),
            "geo": self.geo,
            "cfg_hash": format!("{:016x}", self.cfg_hash),
            "nontrivial": self.nontrivial,
            "stats": self.stats,
            "probes": self.probes,
            "faults": self.faults,
            "extra": self.extra,
        });
        if with_case {
            j["case"] = json!({
                "cfg": self.cfg,
                "steps": self.steps_list,
                "sched": if self.sched.is_empty() { Value::Null } else { json!(self.sched) },
                "extra": self.extra,
            });
        }
        if let Some(s) = &self.sample {
            j["sample"] = s.clone();
        }
        j
    }
}

#[derive(Clone, Debug, Default)]
pub struct Override {
    pub cfg: Option<Cfg>,
    pub steps: Option<Vec<Step>>,
    pub sched: Option<Vec<u32>>,
    pub extra: Option<Value>,
}

pub fn hash_str(s: &str) -> u64 {
    let mut h = 0xcbf2_9ce4_8422_2325u64;
    for b in s.bytes() {
        h = (h ^ b as u64).wrapping_mul(0x0000_0100_0000_01b3);
    }
    h
}

pub fn gen_case(p: &Profile, seed: u64, run: u64) -> (Cfg, Vec<Step>, u64) {
    let s = mix(mix(seed, hash_str(p.id)), run);
    let mut rng = Rng::new(s);
    let cfg = gen_cfg(&mut rng, &p.gen);
    let steps = gen_steps(&mut rng, &cfg, &p.gen);
    (cfg, steps, mix(s, 0x5ced))
}

/// run one case of an Engine profile
pub fn run_engine(p: &Profile, seed: u64, run: u64, ov: &Override, want_case: bool) -> RunOut {
    let (gcfg, gsteps, sched_seed) = gen_case(p, seed, run);
    let cfg = ov.cfg.clone().unwrap_or(gcfg);
    let steps = ov.steps.clone().unwrap_or(gsteps);
    let ch = match &ov.sched {
        Some(l) => Chooser::replay(l.clone()),
        None => Chooser::generate(sched_seed),
    };
    let mut out = RunOut {
        run,
        geo: cfg.geo_key(),
        cfg_hash: hash_str(&serde_json::to_string(&(&cfg, &steps)).unwrap()),
        ..Default::default()
    };
    let _ = qcow2_rs::verif::take_probes();
    KF02_TAINT.with(|t| t.set(false));
    let oracles = p.oracles.clone();
    let res = std::panic::catch_unwind(std::panic::AssertUnwindSafe(|| {
        let mut w = World::new(&cfg, ch, oracles);
        if std::env::var("QSIM_TRACE").is_ok() {
            w.sim.core.trace_on.set(true);
        }
        w.run_steps_seq(&steps);
        debug_dump(&w);
        w
    }));
    match res {
        Ok(w) => {
            out.viols = w.viols.clone();
            out.steps = w.sim.core.steps.get();
            out.reqs = w.sim.core.reqs.borrow().len() as u64;
            out.fingerprint = w.sim.core.fingerprint.get();
            out.nontrivial = w.sim.core.reqs.borrow().iter().any(|r| r.kind.modifies());
            for (k, v) in &w.stats {
                out.stats.insert(k.to_string(), *v);
            }
            for (k, v) in w.sim.core.faults_fired.borrow().iter() {
                out.faults.insert(k.to_string(), *v);
            }
            out.sched = w.sim.core.ch.borrow().rec.clone();
            out.stats
                .insert("file_growth".into(), w.max_file_len.saturating_sub(w.file_len_at_start));
        }
        Err(_) => {
            let info = take_panic();
            let taint = if KF02_TAINT.with(|t| t.get()) {
                "/discard-racing-write-same-cluster"
            } else {
                ""
            };
            out.viols.push(Viol {
                props: vec![p.id],
                sig: format!("{}{taint}", panic_sig(&info)),
                detail: format!("panic: {info}"),
                step: 0,
                nonfatal: false,
            });
        }
    }
    for (k, v) in qcow2_rs::verif::take_probes() {
        out.probes.insert(k.to_string(), v);
    }
    if want_case || !out.viols.is_empty() {
        out.cfg = Some(cfg);
        out.steps_list = Some(steps);
    }
    out
}

pub fn debug_dump(w: &World) {
    if std::env::var("QSIM_TRACE").is_ok() {
        for l in w.sim.core.trace.borrow().iter() {
            eprintln!("{l}");
        }
    }
    if std::env::var("QSIM_FINAL").is_ok() {
        let img = w.sim.file_content(w.files[0]);
        let v = crate::qspec::check_image(&img, true);
        eprintln!("final file: len {:#x} fatal {:?}", img.len(), v.fatal);
        for s in v.structural.iter().take(10) {
            eprintln!("  structural: {s}");
        }
        for s in v.undercount.iter().take(10) {
            eprintln!("  undercount: {s}");
        }
        for s in v.leak.iter().take(10) {
            eprintln!("  leak: {s}");
        }
        if let Some((limg, snap)) = w.logical_image() {
            let v = crate::qspec::check_image(&limg, true);
            eprintln!("logical in-RAM image: fatal {:?} hdr l1 {:#x}/{} rt {:#x}/{} new {:?}", v.fatal, snap.hdr_l1_offset, snap.hdr_l1_entries, snap.hdr_reftable_offset, snap.hdr_reftable_clusters, snap.new_clusters);
            for s in v.structural.iter().take(10) {
                eprintln!("  structural: {s}");
            }
            for s in v.undercount.iter().take(10) {
                eprintln!("  undercount: {s}");
            }
            for s in v.leak.iter().take(10) {
                eprintln!("  leak: {s}");
            }
            eprintln!("  l1[0..4] {:x?}", &snap.l1[..4.min(snap.l1.len())]);
        }
    }
}

/// does the top layer's header list fewer L1 entries than its size needs
pub fn cfg_short_l1(cfg: &Cfg) -> bool {
    let l = &cfg.layers[0];
    if !l.l1_short || l.formatted {
        return false;
    }
    let cs = 1u64 << l.cluster_bits;
    let l2n = cs / 8;
    let needed = l.vsize.div_ceil(cs).div_ceil(l2n);
    let used = l
        .guest
        .iter()
        .map(|(g, _)| g / l2n + 1)
        .chain(l.empty_l2.iter().filter(|i| **i < needed).map(|i| i + 1))
        .max()
        .unwrap_or(0)
        .max(1);
    used < needed
}
