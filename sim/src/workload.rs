//! Configuration and workload generators.  Everything is drawn from one `Rng`
//! (seeded from VERIF_SEED and the run index) and materialised into plain,
//! serialisable data, so that a replay file can carry the exact run.
use crate::chooser::Rng;
use serde::{Deserialize, Serialize};

#[derive(Serialize, Deserialize, Clone, Debug, PartialEq)]
pub struct Layer {
    pub cluster_bits: u32,
    pub refcount_order: u32,
    pub version: u32,
    pub vsize: u64,
    /// image produced by the library's own formatter (else by the independent builder)
    pub formatted: bool,
    pub layout: u32,
    pub slack_pct: u32,
    pub l1_short: bool,
    pub l1_room_full: bool,
    pub extra_ext: bool,
    pub pad_cluster: bool,
    pub rt_extra: u32,
    /// (guest cluster, kind): 1 data, 2 zero plain, 3 zero prealloc, 4 compressed
    pub guest: Vec<(u64, u8)>,
    pub empty_l2: Vec<u64>,
    pub layout_seed: u64,
    #[serde(default)]
    pub junk_tail: u32,
}

#[derive(Serialize, Deserialize, Clone, Debug, PartialEq)]
pub struct Cfg {
    /// [0] = top image, [1] = its backing image, ...
    pub layers: Vec<Layer>,
    pub bs_bits: u8,
    /// None = library default
    pub l2_cache: Option<(u8, usize)>,
    pub rb_cache: Option<(u8, usize)>,
    pub inline_pct: u32,
    pub early_visible: bool,
    pub fifo_pct: u32,
    pub poll_first_pct: u32,
    pub punch_unsupported: bool,
    pub hash_seed: u64,
    pub read_only: bool,
    /// > 0: priority schedule (PCT style) with this many priority change
    /// points per concurrent batch instead of uniformly random choices
    #[serde(default)]
    pub pct_depth: u32,
}

impl Cfg {
    pub fn cs(&self) -> u64 {
        1 << self.layers[0].cluster_bits
    }
    pub fn bs(&self) -> u64 {
        1 << self.bs_bits
    }
    pub fn vsize(&self) -> u64 {
        self.layers[0].vsize
    }
    /// end of the block-addressable part of the disk
    pub fn vend(&self) -> u64 {
        self.vsize() & !(self.bs() - 1)
    }
    pub fn geo_key(&self) -> String {
        let l = &self.layers[0];
        format!(
            "cb{}-ro{}-v{}-bs{}-l2{:?}-rb{:?}-d{}{}",
            l.cluster_bits,
            l.refcount_order,
            l.version,
            self.bs_bits,
            self.l2_cache,
            self.rb_cache,
            self.layers.len(),
            if l.formatted { "-fmt" } else { "-bld" }
        )
    }
}

#[derive(Serialize, Deserialize, Clone, Debug, PartialEq)]
pub enum Op {
    Write { off: u64, len: u32 },
    Read { off: u64, len: u32 },
    Discard { off: u64, len: u64 },
    Flush,
    Shrink,
    Fsync,
    /// drop the device and open the file again; 0 = same params, n = variant
    Reopen { variant: u8 },
    /// argument-validation probes (C13); `kind`: 0 read, 1 write, 2 discard
    Probe { kind: u8, off: u64, len: u64 },
    GetMapping { off: u64 },
    /// flush + quiescent sync point for C05
    SyncPoint,
    Check,
    /// look at the live image and drive the allocator into a multi-slice
    /// allocation that meets fragmentation (world.rs do_alloc_stress)
    AllocStress,
    /// write single clusters until the host file ends just short of the
    /// range of its last refcount block: the next allocations (usually a
    /// concurrent batch) need a new refcount block and a refcount-table update
    FillToRefblockEnd,
    /// discard and rewrite a small working set of allocated clusters many
    /// times: the host file must not keep growing (C08: freed clusters are
    /// reused)
    ReuseCycles,
}

#[derive(Serialize, Deserialize, Clone, Debug, PartialEq)]
pub enum Step {
    Seq(Op),
    /// client op lists run concurrently
    Par(Vec<Vec<Op>>),
    /// a concurrent batch made up when it is reached, from the state of the
    /// image then (world.rs resolve_par_fresh): a write that has to allocate
    /// in an existing L2 table, a flush, a walk over other L2 slices
    ParFresh { seed: u64 },
}

/// what a profile wants from the generators
#[derive(Clone, Debug)]
pub struct GenOpts {
    /// weights over cluster_bits classes: [9, 10, 11, 12, 13..15, 16, 17..20, 21]
    pub cb_weights: [u32; 8],
    pub allow_backing: bool,
    pub force_backing: bool,
    pub allow_compressed: bool,
    pub force_compressed: bool,
    pub allow_builder: bool,
    pub force_builder: bool,
    pub allow_default_params: bool,
    pub tiny_cache_pct: u32,
    pub allow_v2: bool,
    pub allow_big_bs: bool,
    pub schedule_knobs: bool,
    pub l1_short_pct: u32,
    pub growth_geometry: bool,
    /// percent of runs that get the growth geometry (when growth_geometry is
    /// not set for the whole profile)
    pub growth_pct: u32,
    pub min_ops: u32,
    pub max_ops: u32,
    /// op weights: write, read, discard, flush, shrink, reopen, fsync, probe, getmapping
    pub op_weights: [u32; 9],
    pub par_pct: u32,
    pub max_clients: u32,
    pub max_ops_per_client: u32,
    /// ops of a Par step target a small set of clusters
    pub hot_clusters: u32,
    pub allow_unaligned_vsize: bool,
    pub max_write_clusters: u32,
    /// percent of runs opening the top device read-only
    pub read_only_pct: u32,
    /// percent of runs in which a concurrent batch may contain a discard and
    /// a write (of another client) on the same guest cluster (known finding
    /// KF02 makes those runs uninformative about anything else)
    pub racy_discard_pct: u32,
    /// number of SyncPoint ops (flush_meta + fsync_range at quiescence) to insert
    pub sync_points: u32,
    /// percent of runs whose top image has an L1 table spanning several
    /// device blocks (small clusters, virtual size of 65..200 L2 tables)
    pub wide_l1_pct: u32,
    /// percent of runs with a backing chain (when allow_backing)
    pub backing_pct: u32,
    /// set by gen_cfg for the run being generated
    pub wide_l1_now: bool,
    /// percent of runs with an allocator-stress shape: refcount block slices
    /// of 64..256 entries, a fill phase, scattered discards, multi-cluster
    /// writes (allocations that span slices and meet fragmentation)
    pub frag_pct: u32,
    pub frag_now: bool,
    /// percent of the concurrent batches that are built around the metadata
    /// machinery (allocating write + flush + walk over other L2 slices)
    pub template_pct: u32,
    /// percent of runs that end with a ReuseCycles step
    pub reuse_cycles_pct: u32,
}

impl Default for GenOpts {
    fn default() -> Self {
        GenOpts {
            cb_weights: [30, 12, 8, 20, 6, 8, 3, 1],
            allow_backing: true,
            force_backing: false,
            allow_compressed: true,
            force_compressed: false,
            allow_builder: true,
            force_builder: false,
            allow_default_params: true,
            tiny_cache_pct: 50,
            allow_v2: true,
            allow_big_bs: true,
            schedule_knobs: true,
            l1_short_pct: 0,
            growth_geometry: false,
            growth_pct: 0,
            min_ops: 5,
            max_ops: 40,
            op_weights: [40, 25, 12, 8, 3, 4, 1, 0, 3],
            par_pct: 0,
            max_clients: 4,
            max_ops_per_client: 3,
            hot_clusters: 6,
            allow_unaligned_vsize: true,
            max_write_clusters: 5,
            read_only_pct: 0,
            racy_discard_pct: 30,
            sync_points: 0,
            wide_l1_pct: 8,
            backing_pct: 25,
            wide_l1_now: false,
            frag_pct: 6,
            frag_now: false,
            template_pct: 20,
            reuse_cycles_pct: 0,
        }
    }
}

fn pick_cluster_bits(rng: &mut Rng, w: &[u32; 8]) -> u32 {
    match rng.weighted(w) {
        0 => 9,
        1 => 10,
        2 => 11,
        3 => 12,
        4 => rng.range(13, 15) as u32,
        5 => 16,
        6 => rng.range(17, 20) as u32,
        _ => 21,
    }
}

pub fn gen_layer(rng: &mut Rng, o: &GenOpts, cluster_bits: u32, top: bool, idx_in_chain: usize) -> Layer {
    let cs = 1u64 << cluster_bits;
    let l2cover = (cs / 8) * cs;
    let version = if o.allow_v2 && rng.chance(1, 6) { 2 } else { 3 };
    let refcount_order = if version == 2 {
        4
    } else if o.growth_geometry {
        *rng.pick(&[6u32, 6, 5, 4])
    } else {
        *rng.pick(&[0u32, 1, 2, 3, 4, 4, 4, 5, 6])
    };
    // virtual size: a few L2 tables worth, bounded
    let max_l1 = if cluster_bits <= 10 {
        4
    } else if cluster_bits <= 12 {
        3
    } else {
        2
    };
    let l1n = rng.range(1, max_l1);
    let mut vsize = match rng.below(4) {
        0 => l2cover * l1n,
        1 => l2cover * (l1n - 1) + cs * rng.range(1, (cs / 8).min(64)),
        2 => cs * rng.range(1, 24),
        _ => l2cover * (l1n - 1) + cs * rng.range(1, cs / 8),
    };
    if o.allow_unaligned_vsize && rng.chance(1, 6) && cs > 512 {
        // not a multiple of the cluster size (still sector aligned)
        vsize = vsize.saturating_sub(512 * rng.range(1, cs / 512 - 1)).max(512);
    }
    if cluster_bits >= 20 {
        vsize = vsize.min(l2cover + 8 * cs);
    }
    if o.growth_geometry && top {
        // big enough that the host file crosses refblock (and with 64-bit
        // refcounts and 512-byte clusters: refcount table) capacity
        let rb_cover = cs * (cs * 8 / (1 << refcount_order));
        let rt_cover = rb_cover * (cs / 8);
        GROWTH_FULL.with(|f| f.set(false));
        vsize = if rt_cover <= (4 << 20) && rng.chance(2, 3) {
            if rng.chance(1, 2) {
                (rt_cover + rt_cover / 4 + cs * rng.below(64)) / 512 * 512
            } else {
                // exactly what the refcount table of a freshly formatted
                // image covers: the metadata pushes the host file beyond it
                GROWTH_FULL.with(|f| f.set(true));
                rt_cover - cs * rng.below(8)
            }
        } else if rt_cover <= (16 << 20) && rng.chance(1, 3) {
            // bigger tables (e.g. 1 KiB clusters, where a table cluster is
            // larger than a block): outgrown at 8 / 16 MiB of host file;
            // now and then twice that, for a second relocation
            GROWTH_FULL.with(|f| f.set(true));
            if rng.chance(1, 12) {
                2 * rt_cover + cs * rng.below(64)
            } else {
                rt_cover - cs * rng.below(8)
            }
        } else {
            (rb_cover * rng.range(2, 5) + cs * rng.below(64)).min(4 << 20)
        };
    }
    if o.wide_l1_now && top {
        vsize = l2cover * rng.range(65, 200) + cs * rng.below(cs / 8);
    }
    if o.frag_now && top {
        vsize = cs * rng.range(300, 900);
    }
    let refcount_order = if o.frag_now && top && version >= 3 {
        *rng.pick(&[6u32, 6, 5, 4])
    } else {
        refcount_order
    };
    let builder = o.force_builder || version == 2 || (o.allow_builder && rng.chance(1, 2)) || !top;
    let mut guest: Vec<(u64, u8)> = Vec::new();
    let mut empty_l2 = vec![];
    if builder {
        let gcl = vsize.div_ceil(cs);
        let n = if cluster_bits >= 17 {
            rng.range(0, 4)
        } else {
            rng.range(0, 24.min(gcl))
        };
        // clusters concentrated in a few neighbourhoods
        let centers: Vec<u64> = (0..3).map(|_| rng.below(gcl)).collect();
        for _ in 0..n {
            let c = *rng.pick(&centers);
            let g = (c + rng.below(8)).min(gcl - 1);
            let g = if rng.chance(1, 5) { rng.below(gcl) } else { g };
            let mut kinds: Vec<u8> = vec![1, 1, 1];
            if version >= 3 {
                kinds.extend([2, 3]);
            }
            if (o.allow_compressed || o.force_compressed) && cluster_bits <= 16 {
                kinds.extend([4, 4]);
                if o.force_compressed {
                    kinds.extend([4, 4, 4, 4]);
                }
            }
            let k = *rng.pick(&kinds);
            if !guest.iter().any(|(gg, _)| *gg == g) {
                guest.push((g, k));
            }
        }
        guest.sort();
        let l1n_needed = gcl.div_ceil(cs / 8);
        if rng.chance(1, 4) {
            empty_l2.push(rng.below(l1n_needed));
        }
    }
    let l1_short = builder && rng.below(100) < o.l1_short_pct as u64;
    Layer {
        cluster_bits,
        refcount_order,
        version,
        vsize,
        formatted: !builder,
        layout: if builder { rng.below(3) as u32 } else { 0 },
        slack_pct: if builder { *rng.pick(&[0u32, 0, 10, 40]) } else { 0 },
        l1_short,
        l1_room_full: l1_short && rng.chance(1, 2),
        extra_ext: builder && rng.chance(1, 3),
        pad_cluster: rng.chance(2, 3),
        rt_extra: if builder && rng.chance(1, 5) { 1 } else { 0 },
        guest,
        empty_l2,
        layout_seed: rng.next() ^ idx_in_chain as u64,
        junk_tail: if builder && top && cluster_bits <= 16 && rng.chance(1, 2) {
            rng.range(1, 12) as u32
        } else {
            0
        },
    }
}

thread_local! {
    /// whether the configuration generated last has the allocator-stress shape
    /// (gen_steps, called next, adds the matching phases)
    static FRAG_NOW: std::cell::Cell<bool> = const { std::cell::Cell::new(false) };
    static GROWTH_NOW: std::cell::Cell<bool> = const { std::cell::Cell::new(false) };
    /// the growth march has to fill the disk without gaps
    static GROWTH_FULL: std::cell::Cell<bool> = const { std::cell::Cell::new(false) };
}

pub fn gen_cfg(rng: &mut Rng, o: &GenOpts) -> Cfg {
    let growth = o.growth_geometry || (o.growth_pct > 0 && rng.below(100) < o.growth_pct as u64);
    GROWTH_NOW.with(|f| f.set(growth));
    let mut o = o.clone();
    o.growth_geometry = growth;
    let o = &o;
    let wide = !o.growth_geometry && o.wide_l1_pct > 0 && rng.below(100) < o.wide_l1_pct as u64;
    let frag = !o.growth_geometry && !wide && o.frag_pct > 0 && rng.below(100) < o.frag_pct as u64;
    FRAG_NOW.with(|f| f.set(frag));
    let cluster_bits = if o.growth_geometry {
        *rng.pick(&[9u32, 9, 9, 10])
    } else if frag {
        *rng.pick(&[9u32, 10, 10, 12, 12])
    } else if wide {
        *rng.pick(&[9u32, 9, 10])
    } else {
        pick_cluster_bits(rng, &o.cb_weights)
    };
    let mut o = o.clone();
    o.wide_l1_now = wide;
    o.frag_now = frag;
    let o = &o;
    let mut layers = vec![gen_layer(rng, o, cluster_bits, true, 0)];
    let depth = if o.force_backing {
        rng.range(1, 2)
    } else if o.allow_backing && rng.below(100) < o.backing_pct as u64 {
        rng.range(1, 2)
    } else {
        0
    };
    for d in 0..depth {
        // backing layers: always builder images with data; size shorter / equal / longer
        let cb = if rng.chance(2, 3) {
            cluster_bits
        } else {
            pick_cluster_bits(rng, &[10, 10, 5, 10, 3, 3, 0, 0]).min(16)
        };
        let mut bo = o.clone();
        bo.force_builder = true;
        bo.l1_short_pct = 0;
        bo.wide_l1_now = false;
        bo.frag_now = false;
        let mut l = gen_layer(rng, &bo, cb, false, d as usize + 1);
        let top_v = layers[0].vsize;
        let cs = 1u64 << cb;
        l.vsize = match rng.below(4) {
            0 => top_v,
            1 => (top_v / 2).max(cs) / 512 * 512,
            2 => top_v + cs * rng.range(1, 4),
            _ => (top_v.saturating_sub(cs * rng.range(1, 3))).max(cs),
        };
        // cap the size for small-cluster backing images: the L1 table grows with it
        let max_v = (cs / 8) * cs * 6;
        l.vsize = l.vsize.min(max_v).max(512);
        // make sure the backing image has data where the top image is likely used
        let gcl = l.vsize.div_ceil(cs);
        l.guest.retain(|(g, _)| *g < gcl);
        let want = rng.range(2, 12);
        for _ in 0..want {
            let g = rng.below(gcl.min(48));
            let mut kinds: Vec<u8> = vec![1, 1, 1];
            if l.version >= 3 {
                kinds.push(2);
            }
            if o.allow_compressed && cb <= 16 {
                kinds.push(4);
            }
            let k = *rng.pick(&kinds);
            if !l.guest.iter().any(|(gg, _)| *gg == g) {
                l.guest.push((g, k));
            }
        }
        l.guest.sort();
        l.empty_l2.retain(|i| *i < gcl.div_ceil(cs / 8));
        layers.push(l);
    }
    if layers.len() > 1 {
        // only builder images can name a backing file
        for l in layers.iter_mut() {
            l.formatted = false;
        }
        // the everyday case: a fresh, empty overlay on top of the chain
        if rng.chance(1, 3) {
            layers[0].guest.clear();
            layers[0].empty_l2.clear();
        }
    }
    // device parameters (the same parameters are handed to every backing
    // device, so slice and block sizes must be legal for every layer)
    let cluster_bits = layers.iter().map(|l| l.cluster_bits).min().unwrap();
    // the block size must divide every virtual size in the chain (a device
    // whose size is not a multiple of its block size cannot address its tail)
    let tz = layers.iter().map(|l| l.vsize.trailing_zeros()).min().unwrap();
    let max_bs_bits = if o.allow_big_bs { 12u32.min(cluster_bits).min(tz) } else { 9 };
    let bs_bits = *rng.pick(&[9u32, 9, 9, 10, 12]);
    let bs_bits = if frag { 9 } else { bs_bits.min(max_bs_bits) as u8 };
    // the library formats the L1 area in block units; keep the virtual size
    // block aligned for the top layer when the block size is larger
    let default_params = o.allow_default_params && rng.chance(1, 6);
    let (l2_cache, rb_cache) = if default_params {
        (None, None)
    } else {
        let tiny = rng.below(100) < o.tiny_cache_pct as u64;
        let mk = |rng: &mut Rng| {
            let bits = rng.range(bs_bits as u64, cluster_bits as u64) as u8;
            let bits = if tiny && rng.chance(2, 3) { bs_bits } else { bits };
            let cnt = if tiny {
                rng.range(2, 4)
            } else {
                *rng.pick(&[4u64, 8, 16, 64])
            } as usize;
            Some((bits, cnt << bits))
        };
        (mk(rng), mk(rng))
    };
    let (l2_cache, rb_cache) = if frag {
        // refcount block slices of one 512-byte block, a handful of them
        // ... and L2 slices of a whole cluster, so that one allocation can
        // be longer than a refcount-block slice
        let _ = l2_cache;
        let l2 = Some((cluster_bits as u8, (rng.range(2, 6) as usize) << cluster_bits));
        (l2, Some((9u8, (rng.range(2, 6) as usize) << 9)))
    } else {
        (l2_cache, rb_cache)
    };
    let (inline_pct, early_visible, fifo_pct, poll_first_pct) = if o.schedule_knobs {
        (
            *rng.pick(&[0u32, 0, 0, 30, 100]),
            rng.chance(1, 5),
            *rng.pick(&[0u32, 0, 50, 90]),
            *rng.pick(&[0u32, 0, 50]),
        )
    } else {
        (0, false, 0, 0)
    };
    Cfg {
        layers,
        bs_bits,
        l2_cache,
        rb_cache,
        inline_pct,
        early_visible,
        fifo_pct,
        poll_first_pct,
        punch_unsupported: rng.chance(1, 5),
        hash_seed: rng.next(),
        read_only: rng.below(100) < o.read_only_pct as u64,
        pct_depth: if o.schedule_knobs && o.par_pct > 0 { *rng.pick(&[0u32, 0, 0, 0, 2, 3]) } else { 0 },
    }
}

pub struct OpGen {
    pub hot: Vec<u64>,
}

impl OpGen {
    pub fn new(rng: &mut Rng, cfg: &Cfg, o: &GenOpts) -> OpGen {
        let cs = cfg.cs();
        let gcl = cfg.vsize().div_ceil(cs);
        let l2n = cs / 8;
        let mut hot = vec![];
        // boundaries: first, last, L2 table boundary, L2 slice boundary
        let mut cand = vec![0u64, gcl.saturating_sub(1)];
        if gcl > l2n {
            cand.push(l2n - 1);
            cand.push(l2n);
        }
        if let Some((bits, _)) = cfg.l2_cache {
            let se = (1u64 << bits) / 8;
            if se < gcl {
                cand.push(se - 1);
                cand.push(se);
            }
        }
        // L1 block boundaries (the unit in which the L1 table is written)
        let per_blk = (cfg.bs() / 8) * l2n;
        if gcl > per_blk {
            for _ in 0..3 {
                let k = rng.range(1, (gcl - 1) / per_blk);
                cand.push(k * per_blk - 1);
                cand.push(k * per_blk);
            }
        }
        for (g, _) in &cfg.layers[0].guest {
            cand.push(*g);
        }
        for l in cfg.layers.iter().skip(1) {
            let lcs = 1u64 << l.cluster_bits;
            for (g, _) in &l.guest {
                cand.push((g * lcs / cs).min(gcl - 1));
            }
        }
        for _ in 0..o.hot_clusters {
            if !cand.is_empty() && rng.chance(2, 3) {
                hot.push(*rng.pick(&cand));
            } else {
                hot.push(rng.below(gcl));
            }
        }
        OpGen { hot }
    }

    pub fn pick_cluster(&self, rng: &mut Rng, cfg: &Cfg) -> u64 {
        let gcl = cfg.vsize().div_ceil(cfg.cs());
        if rng.chance(4, 5) {
            let c = *rng.pick(&self.hot);
            if rng.chance(1, 4) {
                (c + rng.below(3)).min(gcl - 1)
            } else {
                c
            }
        } else {
            rng.below(gcl)
        }
    }

    /// a block-aligned in-bounds range
    pub fn range(&self, rng: &mut Rng, cfg: &Cfg, max_clusters: u32) -> (u64, u64) {
        let cs = cfg.cs();
        let bs = cfg.bs();
        let vend = cfg.vend();
        let g = self.pick_cluster(rng, cfg);
        let bpc = (cs / bs).max(1); // blocks per cluster
        let (mut off, mut len) = match rng.below(10) {
            0..=2 => {
                // sub-cluster
                let b0 = rng.below(bpc);
                let n = rng.range(1, bpc - b0);
                (g * cs + b0 * bs, n * bs)
            }
            3..=4 => (g * cs, cs),
            5..=6 => {
                // straddle
                let b0 = rng.below(bpc);
                let n = rng.range(1, bpc);
                (g * cs + b0 * bs, (bpc - b0 + n.min(bpc)) * bs)
            }
            7..=8 => {
                let n = rng.range(2, max_clusters.max(2) as u64);
                let b0 = if rng.chance(1, 2) { rng.below(bpc) } else { 0 };
                let tail = if rng.chance(1, 2) { rng.below(bpc) } else { 0 };
                (g * cs + b0 * bs, n * cs - b0 * bs - tail * bs)
            }
            _ => {
                // long run crossing L2 slice boundaries (bounded in bytes)
                let n = rng.range(2, 40).min((4 << 20) / cs).max(2);
                (g * cs, n * cs)
            }
        };
        if off >= vend {
            off = vend.saturating_sub(len.min(vend)) / bs * bs;
        }
        if off + len > vend {
            len = vend - off;
        }
        if len == 0 {
            len = bs.min(vend);
            off = 0;
        }
        // bounded request size (ids are handed out in 16 MiB strides)
        if len > (8 << 20) {
            len = 8 << 20;
        }
        (off, len)
    }

    pub fn op(&self, rng: &mut Rng, cfg: &Cfg, o: &GenOpts) -> Op {
        let k = rng.weighted(&o.op_weights);
        match k {
            0 => {
                let (off, len) = self.range(rng, cfg, o.max_write_clusters);
                Op::Write {
                    off,
                    len: len as u32,
                }
            }
            1 => {
                let (off, len) = self.range(rng, cfg, o.max_write_clusters + 2);
                Op::Read {
                    off,
                    len: len as u32,
                }
            }
            2 => {
                // discard: arbitrary byte ranges, mostly cluster-ish
                let cs = cfg.cs();
                let g = self.pick_cluster(rng, cfg);
                match rng.below(8) {
                    0 => Op::Discard {
                        off: g * cs + rng.below(cs),
                        len: rng.below(3 * cs),
                    },
                    1 => Op::Discard {
                        off: g * cs,
                        len: cs * rng.range(1, 4) + rng.below(cs),
                    },
                    2 => Op::Discard {
                        off: g * cs,
                        len: cfg.vsize() + rng.below(cs),
                    },
                    _ => Op::Discard {
                        off: g * cs,
                        len: cs * rng.range(1, 3),
                    },
                }
            }
            3 => Op::Flush,
            4 => Op::Shrink,
            5 => Op::Reopen {
                variant: rng.below(4) as u8,
            },
            6 => Op::Fsync,
            7 => gen_probe(rng, cfg),
            _ => Op::GetMapping {
                off: self.pick_cluster(rng, cfg) * cfg.cs() + rng.below(cfg.cs()),
            },
        }
    }
}

/// boundary table for C13
pub fn gen_probe(rng: &mut Rng, cfg: &Cfg) -> Op {
    let bs = cfg.bs();
    let vs = cfg.vsize();
    let vend = cfg.vend();
    let cs = cfg.cs();
    let offs = [
        0u64,
        1,
        bs - 1,
        bs,
        bs + 1,
        cs - bs,
        cs,
        cs + 1,
        vend.saturating_sub(bs),
        vend.saturating_sub(1),
        vend,
        vs,
        vs + 1,
        vs + bs,
        vs.div_ceil(cs) * cs,
        u64::MAX,
        u64::MAX - 1,
        u64::MAX - bs + 1,
        u64::MAX - cs + 1,
        (u64::MAX / bs) * bs,
        1 << 63,
        (1 << 63) - bs,
        u32::MAX as u64 + 1,
    ];
    let lens = [
        0u64,
        1,
        bs - 1,
        bs,
        bs + 1,
        2 * bs,
        cs,
        cs + bs,
        cs - 1,
        2 * cs,
        3 * cs + bs,
    ];
    let kind = rng.below(3) as u8;
    let off = if rng.chance(1, 8) {
        rng.below(vs.max(1))
    } else {
        *rng.pick(&offs)
    };
    let len = if kind == 2 {
        match rng.below(5) {
            0 => u64::MAX,
            1 => u64::MAX - off,
            2 => u64::MAX.wrapping_sub(off).wrapping_add(1),
            _ => *rng.pick(&lens),
        }
    } else {
        *rng.pick(&lens)
    };
    Op::Probe { kind, off, len }
}

pub fn gen_steps(rng: &mut Rng, cfg: &Cfg, o: &GenOpts) -> Vec<Step> {
    let g = OpGen::new(rng, cfg, o);
    let n = rng.range(o.min_ops as u64, o.max_ops as u64);
    let allow_racy = rng.below(100) < o.racy_discard_pct as u64;
    let mut steps = Vec::new();
    let mut count = 0;
    if GROWTH_NOW.with(|f| f.get()) {
        // march across the disk so that the host file outgrows its refcount
        // blocks / refcount table / active L1 entries
        let cs = cfg.cs();
        let vend = cfg.vend();
        let mut pos = 0u64;
        let stride_max = (vend / 8).max(cs * 8);
        let big = vend > (8 << 20);
        // half of the runs fill the disk nearly gap-free: only then does the
        // host file outgrow the refcount table
        let full = GROWTH_FULL.with(|f| f.get());
        let jump_one_in = if full {
            u64::MAX
        } else if big {
            40
        } else if rng.chance(1, 2) {
            3
        } else {
            12
        };
        // with concurrency in the profile: do the last stretch - where the
        // host file crosses what the refcount table covers - with several
        // writers and a flusher at once
        let par_tail = full && o.par_pct > 0 && !big && rng.chance(2, 3);
        let seq_end = if par_tail { vend / cs * 15 / 16 * cs } else { vend };
        while pos < seq_end && steps.len() < if vend > (24 << 20) { 80 } else { 40 } {
            let n = if big {
                rng.range(400, 2400)
            } else if full {
                rng.range(100, 480)
            } else {
                rng.range(16, 480)
            };
            let len = (cs * n).min(seq_end - pos).min(8 << 20);
            steps.push(Step::Seq(Op::Write { off: pos, len: len as u32 }));
            pos += len;
            if rng.chance(1, jump_one_in) {
                pos = (pos + cs * rng.below(stride_max / cs)).min(vend) / cs * cs;
            }
            match rng.below(8) {
                0 => steps.push(Step::Seq(Op::Flush)),
                1 => steps.push(Step::Seq(g.op(rng, cfg, o))),
                _ => {}
            }
        }
        if par_tail {
            while pos < vend && steps.len() < 120 {
                let mut clients = vec![];
                for _ in 0..rng.range(3, 4) {
                    if pos >= vend {
                        break;
                    }
                    let len = (cs * rng.range(2, 12)).min(vend - pos);
                    clients.push(vec![Op::Write { off: pos, len: len as u32 }]);
                    pos += len;
                }
                clients.push(vec![if rng.chance(1, 6) { Op::Shrink } else { Op::Flush }]);
                steps.push(Step::Par(clients));
            }
        }
    }
    if FRAG_NOW.with(|f| f.get()) {
        let cs = cfg.cs();
        let gcl = cfg.vsize() / cs;
        // fill: a few long writes
        let fill = rng.range(150, 520).min(gcl.saturating_sub(40));
        let mut pos = 0u64;
        while pos < fill {
            let n = rng.range(20, 200).min(fill - pos).min((8 << 20) / cs);
            steps.push(Step::Seq(Op::Write { off: pos * cs, len: (n * cs) as u32 }));
            pos += n;
        }
        if rng.chance(1, 2) {
            steps.push(Step::Seq(Op::Flush));
        }
        if rng.chance(1, 2) {
            steps.push(Step::Seq(Op::AllocStress));
        }
        // holes
        for _ in 0..rng.range(8, 40) {
            let g = rng.below(fill);
            // mostly small holes; some that free a whole refcount-block
            // slice and more (a later allocation then runs through it)
            let n = match rng.below(8) {
                0 => rng.range(70, 300),
                1 | 2 => rng.range(5, 14),
                _ => rng.range(1, 4),
            };
            let n = n.min(fill - g);
            steps.push(Step::Seq(Op::Discard { off: g * cs, len: n * cs }));
            if rng.chance(1, 12) {
                steps.push(Step::Seq(Op::Flush));
            }
        }
        if rng.chance(2, 3) {
            steps.push(Step::Seq(Op::Flush));
        }
        // multi-cluster writes into fresh and into discarded places
        for _ in 0..rng.range(4, 16) {
            let n = match rng.below(8) {
                0 => rng.range(90, 400),
                1 | 2 => rng.range(24, 90),
                _ => rng.range(2, 24),
            };
            let g = if rng.chance(1, 2) {
                fill + rng.below((gcl - fill).max(1))
            } else {
                rng.below(fill)
            };
            let n = n.min(gcl - g);
            if n == 0 {
                continue;
            }
            steps.push(Step::Seq(Op::Write { off: g * cs, len: (n * cs) as u32 }));
            if rng.chance(1, 6) {
                steps.push(Step::Seq(Op::Flush));
            }
        }
        steps.push(Step::Seq(Op::Flush));
    }
    while count < n {
        if rng.below(100) < o.par_pct as u64 {
            let nc = rng.range(2, o.max_clients.max(2) as u64);
            let mut clients = vec![];
            let _ = allow_racy;
            let template = rng.below(100) < o.template_pct as u64;
            if template && rng.chance(1, 2) {
                if cfg.layers[0].cluster_bits <= 10 && !cfg.read_only && rng.chance(1, 2) {
                    steps.push(Step::Seq(Op::FillToRefblockEnd));
                }
                steps.push(Step::ParFresh { seed: rng.next() });
                count += 3;
                continue;
            }
            if template {
                // a batch built around the metadata machinery: one client
                // allocates (a write of a few clusters), one flushes, one or
                // two touch other L2 slices (with a small cache: eviction and
                // write-back of the allocator's slice while the flush runs)
                let cs = cfg.cs();
                let gcl = cfg.vsize().div_ceil(cs);
                let bs = cfg.bs();
                let (off, len) = g.range(rng, cfg, o.max_write_clusters.max(3));
                clients.push(vec![Op::Write { off, len: len as u32 }]);
                clients.push(vec![if rng.chance(1, 6) { Op::Shrink } else { Op::Flush }]);
                let se = cfg.l2_cache.map(|(b, _)| (1u64 << b) / 8).unwrap_or(cs / 8).max(1);
                for i in 0..rng.range(1, 2) {
                    // one client walking over other slices: the second miss
                    // pushes the allocator's (most recently used) slice out
                    let mut ops = vec![];
                    for j in 0..rng.range(1, 3) {
                        let far = ((off / cs) + se * (1 + 3 * i + j + rng.below(2))) % gcl;
                        let o2 = (far * cs).min(cfg.vend().saturating_sub(bs)) / bs * bs;
                        ops.push(if rng.chance(1, 4) {
                            Op::Write { off: o2, len: bs as u32 }
                        } else {
                            Op::Read { off: o2, len: bs as u32 }
                        });
                    }
                    clients.push(ops);
                }
                count += clients.len() as u64;
            }
            for _ in 0..if template { 0 } else { nc } {
                let k = rng.range(1, o.max_ops_per_client as u64);
                let mut ops = vec![];
                for _ in 0..k {
                    let mut op = g.op(rng, cfg, o);
                    // structural ops are not issued inside a concurrent batch
                    while matches!(op, Op::Reopen { .. } | Op::Probe { .. }) {
                        op = g.op(rng, cfg, o);
                    }
                    ops.push(op);
                    count += 1;
                }
                clients.push(ops);
            }
            if !allow_racy {
                // replace discards that share a guest cluster with a write of
                // another client by reads of the same range
                let cs = cfg.cs();
                let mut wr: Vec<(usize, u64, u64)> = vec![];
                for (ci, c) in clients.iter().enumerate() {
                    for op in c {
                        if let Op::Write { off, len } = op {
                            wr.push((ci, off / cs, (off + *len as u64 - 1) / cs));
                        }
                    }
                }
                for (ci, c) in clients.iter_mut().enumerate() {
                    for op in c.iter_mut() {
                        if let Op::Discard { off, len } = op {
                            let end = off.saturating_add(*len).min(cfg.vsize());
                            let a = off.div_ceil(cs);
                            let b = end / cs;
                            let clash = a < b
                                && wr.iter().any(|(wc, wa, wb)| *wc != ci && *wa < b && a <= *wb);
                            if clash {
                                let bs = cfg.bs();
                                let o2 = (*off / bs * bs).min(cfg.vend().saturating_sub(bs));
                                *op = Op::Read {
                                    off: o2,
                                    len: bs as u32,
                                };
                            }
                        }
                    }
                }
            }
            if o.sync_points > 0 && rng.chance(1, 3) {
                // a client syncs (flush_meta + fsync_range) inside the batch,
                // after one of its writes, often while another client flushes
                let ci = rng.below(clients.len() as u64) as usize;
                let (off, len) = g.range(rng, cfg, o.max_write_clusters);
                clients[ci].push(Op::Write { off, len: len as u32 });
                clients[ci].push(Op::SyncPoint);
                if clients.len() > 1 && rng.chance(2, 3) {
                    let cj = (ci + 1 + rng.below(clients.len() as u64 - 1) as usize) % clients.len();
                    let at = rng.below(clients[cj].len() as u64 + 1) as usize;
                    clients[cj].insert(at, Op::Flush);
                }
            }
            if cfg.layers[0].cluster_bits <= 10 && !cfg.read_only && rng.chance(1, if template { 2 } else { 6 }) {
                steps.push(Step::Seq(Op::FillToRefblockEnd));
            }
            steps.push(Step::Par(clients));
        } else {
            let mut op = g.op(rng, cfg, o);
            if cfg.read_only {
                // on a read-only device modifying calls are validation probes
                op = match op {
                    Op::Write { off, len } => Op::Probe { kind: 1, off, len: len as u64 },
                    Op::Discard { off, len } => Op::Probe { kind: 2, off, len },
                    o => o,
                };
            }
            steps.push(Step::Seq(op));
            count += 1;
        }
    }
    if o.reuse_cycles_pct > 0 && !cfg.read_only && rng.below(100) < o.reuse_cycles_pct as u64 {
        steps.push(Step::Seq(Op::ReuseCycles));
    }
    for _ in 0..o.sync_points {
        let at = rng.below(steps.len() as u64 + 1) as usize;
        steps.insert(at, Step::Seq(Op::SyncPoint));
    }
    steps
}
