//! C17: backend errors are reported and recoverable.  For every generated
//! history a fault-free dry run numbers the backend requests of the image
//! file; then the history is re-run once per chosen request with that request
//! failing (plus a few multi-fault and ENOSPC variants).  After the history
//! the faults stop: flush_meta() is repeated until Ok (bounded), the file is
//! judged by the independent checker (leaks allowed) and a reopened device is
//! swept against the model, in which operations that returned Err may or may
//! not have taken effect.
use crate::chooser::{mix, Chooser, Rng};
use crate::props::{gen_case, hash_str, panic_sig, take_panic, Override, Profile, RunOut};
use crate::qspec;
use crate::sim::ReqKind;
use crate::workload::{Cfg, Op, Step};
use crate::world::{Viol, World};
use std::collections::BTreeSet;

pub fn fault_gen(p: &mut Profile) {
    let g = &mut p.gen;
    g.cb_weights = [45, 20, 10, 20, 3, 2, 0, 0];
    g.tiny_cache_pct = 60;
    g.max_write_clusters = 4;
    g.hot_clusters = 4;
    g.min_ops = 3;
    g.max_ops = 10;
    g.par_pct = 0;
    g.schedule_knobs = true;
    g.op_weights = [50, 8, 14, 14, 4, 6, 0, 0, 2];
    g.growth_pct = 6;
    g.l1_short_pct = 25;
    let o = &mut p.oracles;
    o.fault_free = false;
    o.readback = true;
    o.sweep_every = 0;
    o.flush_check = false;
    o.flush_reopen = false;
    o.snapshot = false;
    o.need_flush = false;
    o.mapping = false;
    o.final_reopen = false;
    o.ownership = false;
}

#[derive(Clone, Debug)]
struct Plan {
    ords: BTreeSet<usize>,
    capacity: Option<u64>,
    name: String,
}

fn one_run(
    p: &Profile,
    cfg: &Cfg,
    steps: &[Step],
    sched_seed: u64,
    sched: Option<Vec<u32>>,
    plan: Option<&Plan>,
) -> Result<(World, Vec<(usize, bool)>), String> {
    let ch = match sched {
        Some(l) => Chooser::replay(l),
        None => Chooser::generate(sched_seed),
    };
    let res = std::panic::catch_unwind(std::panic::AssertUnwindSafe(|| {
        let mut w = World::new(cfg, ch, p.oracles.clone());
        if std::env::var("QSIM_TRACE").is_ok() && plan.is_some() {
            w.sim.core.trace_on.set(true);
        }
        if let Some(pl) = plan {
            let mut f = w.sim.core.faults.borrow_mut();
            f.fail_ordinals = pl.ords.clone();
            f.fault_file = w.files[0];
            f.capacity = pl.capacity;
            drop(f);
            w.faults_active = true;
        }
        let mut results: Vec<(usize, bool)> = vec![];
        if w.open() {
            for (i, st) in steps.iter().enumerate() {
                w.step_no = i;
                let Step::Seq(op) = st else { continue };
                let reqs0 = w.sim.core.reqs.borrow().len();
                let ok = w.exec_seq(op);
                // a failed non-punch request must surface as Err of this call
                let injected: Vec<String> = w.sim.core.reqs.borrow()[reqs0..]
                    .iter()
                    .filter(|r| r.file == w.files[0] && r.ok == Some(false) && r.kind != ReqKind::Punch)
                    .map(|r| format!("{} off={:#x} len={}", r.kind.name(), r.off, r.len))
                    .collect();
                results.push((i, w.last_err));
                if !injected.is_empty() && !w.last_err && !matches!(op, Op::Reopen { .. }) {
                    w.viol(
                        &["C17"],
                        &format!("backend-error-swallowed/{}", op_name(op)),
                        format!(
                            "op#{} {:?} returned Ok although backend request(s) failed: {:?}",
                            w.op_no, op, injected
                        ),
                    );
                }
                if !ok || w.failed() || w.dev.is_none() {
                    break;
                }
            }
        }
        (w, results)
    }));
    res.map_err(|_| take_panic())
}

fn op_name(op: &Op) -> &'static str {
    match op {
        Op::Write { .. } => "write_at",
        Op::Read { .. } => "read_at",
        Op::Discard { .. } => "discard",
        Op::Flush | Op::SyncPoint => "flush_meta",
        Op::Shrink => "shrink_caches",
        Op::Fsync => "fsync_range",
        Op::Reopen { .. } => "reopen",
        Op::GetMapping { .. } => "get_mapping",
        _ => "other",
    }
}

/// faults have stopped: flush until Ok, check the file, reopen and sweep
fn recover(w: &mut World, plan: &Plan) {
    if w.failed() {
        return;
    }
    {
        let mut f = w.sim.core.faults.borrow_mut();
        f.fail_ordinals.clear();
        f.capacity = None;
    }
    w.faults_active = false;
    if w.dev.is_none() {
        // the history ended in a failed (re)open: open again without faults
        if !w.open() {
            if !w.failed() {
                w.viol(
                    &["C17"],
                    "cannot-open-after-faults",
                    format!("[{}] the image cannot be opened after the faults stopped", plan.name),
                );
            }
            return;
        }
    }
    let mut ok = false;
    let mut last = String::new();
    for _ in 0..4 {
        match w.do_flush() {
            Err(s) => {
                w.viol(&["C17", "C07"], "flush-stuck-after-faults", format!("[{}] {s:?}", plan.name));
                return;
            }
            Ok(Ok(())) => {
                ok = true;
                break;
            }
            Ok(Err(e)) => last = e,
        }
    }
    if !ok {
        w.viol(
            &["C17"],
            "flush-not-recoverable",
            format!(
                "[{}] flush_meta() still fails after the backend works again (4 attempts): {last}",
                plan.name
            ),
        );
        return;
    }
    w.stat("recoveries");
    let img = w.sim.file_content(w.files[0]);
    if std::env::var("QSIM_FINAL").is_ok() {
        let h = qspec::parse_header(&img);
        eprintln!("file header after recovery: {h:?}");
        if let Some((_, snap)) = w.logical_image() {
            eprintln!("in-RAM hdr l1 {:#x}/{}", snap.hdr_l1_offset, snap.hdr_l1_entries);
        }
    }
    let v = qspec::check_image(&img, false);
    if let Some((class, d)) = v.first_problem(true) {
        w.viol(
            &["C17"],
            &format!("after-recovery/{class}"),
            format!("[{}] file after the faults stopped and flush_meta() returned Ok: {d}", plan.name),
        );
        return;
    }
    if !v.leak.is_empty() {
        w.stat("recovered_images_with_leak");
    }
    let what = format!("[{}] after recovery", plan.name);
    if w.sweep(&what, &["C17"]) {
        let _ = w.check_reopen(&what, &["C17"], 0);
    }
    if w.kf09_hits.get() > 0 {
        let d = w.kf09_detail.borrow().clone().unwrap_or_default();
        w.viol_nonfatal(
            &["C17"],
            "stale-bytes-in-cluster-of-failed-write",
            format!("{what}: {d}"),
        );
    }
}

pub fn run_fault(p: &Profile, seed: u64, run: u64, ov: &Override, want_case: bool) -> RunOut {
    let (gcfg, gsteps, sched_seed) = gen_case(p, seed, run);
    let cfg = ov.cfg.clone().unwrap_or(gcfg);
    let steps: Vec<Step> = ov
        .steps
        .clone()
        .unwrap_or(gsteps)
        .into_iter()
        .filter(|s| matches!(s, Step::Seq(_)))
        .collect();
    let mut out = RunOut {
        run,
        geo: cfg.geo_key(),
        cfg_hash: hash_str(&serde_json::to_string(&(&cfg, &steps)).unwrap()),
        ..Default::default()
    };
    let _ = qcow2_rs::verif::take_probes();
    crate::props::KF02_TAINT.with(|t| t.set(false));
    // a replay names the plan explicitly
    let only: Option<Plan> = ov.extra.as_ref().and_then(|e| {
        let ords: BTreeSet<usize> = e
            .get("fail_ordinals")?
            .as_array()?
            .iter()
            .filter_map(|x| x.as_u64().map(|v| v as usize))
            .collect();
        Some(Plan {
            ords,
            capacity: e.get("capacity").and_then(|c| c.as_u64()),
            name: e
                .get("plan")
                .and_then(|n| n.as_str())
                .unwrap_or("replay")
                .to_string(),
        })
    });
    // dry run
    let dry = one_run(p, &cfg, &steps, sched_seed, ov.sched.clone(), None);
    // requests that are rare and structurally significant: header writes,
    // writes into the top tables, zeroing requests, fsyncs
    let mut rare: Vec<Vec<usize>> = vec![vec![]; 5];
    let (n_reqs, max_len) = match &dry {
        Ok((w, _)) => {
            if w.failed() {
                out.viols = w.viols.clone();
                out.cfg = Some(cfg);
                out.steps_list = Some(steps);
                return out;
            }
            out.steps = w.sim.core.steps.get();
            out.fingerprint = w.sim.core.fingerprint.get();
            let img = w.sim.file_content(w.files[0]);
            let hdr = qspec::parse_header(&img).ok();
            let cs = cfg.cs();
            for r in w.sim.core.reqs.borrow().iter() {
                let (Some(ord), true) = (r.ord, r.file == w.files[0]) else { continue };
                let class = match r.kind {
                    ReqKind::Write if r.off == 0 => 0,
                    ReqKind::Write => match &hdr {
                        Some(h) if r.off >= h.rt_off && r.off < h.rt_off + h.rt_clusters as u64 * cs => 1,
                        Some(h) if r.off >= h.l1_off && r.off < h.l1_off + (h.l1_size as u64 * 8).div_ceil(cs) * cs => 2,
                        _ => continue,
                    },
                    ReqKind::Punch => 3,
                    ReqKind::Fsync => 4,
                    _ => continue,
                };
                rare[class].push(ord);
            }
            (w.sim.core.fault_ordinal.get(), w.max_file_len)
        }
        Err(info) => {
            out.viols.push(Viol {
                props: vec![p.id],
                sig: panic_sig(info),
                detail: format!("panic in the fault-free run: {info}"),
                step: 0,
                nonfatal: false,
            });
            out.cfg = Some(cfg);
            out.steps_list = Some(steps);
            return out;
        }
    };
    let mut rng = Rng::new(mix(sched_seed, 0xfa17));
    let mut plans: Vec<Plan> = vec![];
    match only {
        Some(pl) => plans.push(pl),
        None => {
            let all: Vec<usize> = (0..n_reqs).collect();
            let pick: Vec<usize> = if n_reqs <= 70 {
                all
            } else {
                let mut s: BTreeSet<usize> = BTreeSet::new();
                // every header write, a few of each other rare class ...
                for (ci, c) in rare.iter().enumerate() {
                    let want = if ci == 0 { 8 } else { 5 };
                    if c.len() <= want {
                        s.extend(c.iter().copied());
                    } else {
                        for _ in 0..want {
                            s.insert(c[rng.below(c.len() as u64) as usize]);
                        }
                    }
                }
                // ... and the rest at random
                while s.len() < 70 {
                    s.insert(rng.below(n_reqs as u64) as usize);
                }
                s.into_iter().collect()
            };
            for i in pick {
                plans.push(Plan {
                    ords: [i].into_iter().collect(),
                    capacity: None,
                    name: format!("request {i} of {n_reqs} fails"),
                });
            }
            // multi-fault subsets
            for _ in 0..6 {
                let k = rng.range(2, 3) as usize;
                let mut s = BTreeSet::new();
                while s.len() < k.min(n_reqs) {
                    s.insert(rng.below(n_reqs.max(1) as u64) as usize);
                }
                plans.push(Plan {
                    name: format!("requests {:?} of {n_reqs} fail", s),
                    ords: s,
                    capacity: None,
                });
            }
            // a burst: every request from i on fails for a while
            for _ in 0..2 {
                let i = rng.below(n_reqs.max(1) as u64) as usize;
                let len = rng.range(2, 6) as usize;
                plans.push(Plan {
                    ords: (i..i + len).collect(),
                    capacity: None,
                    name: format!("requests {i}..{} of {n_reqs} fail", i + len),
                });
            }
            // full disk: writes beyond a capacity fail until "space is freed"
            for _ in 0..2 {
                let start = {
                    let w = &dry.as_ref().unwrap().0;
                    w.file_len_at_start
                };
                if max_len > start {
                    let cap = start + rng.below(max_len - start + 1) / 512 * 512;
                    plans.push(Plan {
                        ords: BTreeSet::new(),
                        capacity: Some(cap),
                        name: format!("disk full at {cap:#x}"),
                    });
                }
            }
        }
    }
    let mut injections = 0u64;
    for pl in &plans {
        injections += 1;
        match one_run(p, &cfg, &steps, sched_seed, ov.sched.clone(), Some(pl)) {
            Err(info) => {
                out.viols.push(Viol {
                    props: vec![p.id],
                    sig: panic_sig(&info),
                    detail: format!("[{}] panic: {info}", pl.name),
                    step: 0,
                    nonfatal: false,
                });
            }
            Ok((mut w, _)) => {
                if !w.failed() {
                    let r = std::panic::catch_unwind(std::panic::AssertUnwindSafe(|| {
                        recover(&mut w, pl);
                        w
                    }));
                    match r {
                        Ok(w2) => w = w2,
                        Err(_) => {
                            let info = take_panic();
                            out.viols.push(Viol {
                                props: vec![p.id],
                                sig: panic_sig(&info),
                                detail: format!("[{}] panic during recovery: {info}", pl.name),
                                step: 0,
                                nonfatal: false,
                            });
                            continue;
                        }
                    }
                }
                if std::env::var("QSIM_TRACE").is_ok() {
                    for l in w.sim.core.trace.borrow().iter() {
                        eprintln!("{l}");
                    }
                }
                for (k, v) in w.sim.core.faults_fired.borrow().iter() {
                    *out.faults.entry(k.to_string()).or_insert(0) += *v;
                }
                for (k, v) in &w.stats {
                    *out.stats.entry(k.to_string()).or_insert(0) += *v;
                }
                out.reqs += w.sim.core.reqs.borrow().len() as u64;
                out.steps += w.sim.core.steps.get();
                for mut v in w.viols.clone() {
                    if !v.detail.starts_with('[') {
                        v.detail = format!("[{}] {}", pl.name, v.detail);
                    }
                    out.viols.push(v);
                }
            }
        }
        if let Some(v) = out.viols.iter().find(|v| !v.nonfatal) {
            // keep the plan for the replay file
            out.extra = serde_json::json!({
                "fail_ordinals": pl.ords.iter().collect::<Vec<_>>(),
                "capacity": pl.capacity,
                "plan": pl.name,
                "sig": v.sig,
            });
            break;
        }
    }
    out.stats.insert("fault_injections".into(), injections);
    out.stats.insert("requests_in_dry_run".into(), n_reqs as u64);
    out.nontrivial = out.faults.values().sum::<u64>() > 0;
    for (k, v) in qcow2_rs::verif::take_probes() {
        out.probes.insert(k.to_string(), v);
    }
    if want_case || !out.viols.is_empty() {
        out.cfg = Some(cfg);
        out.steps_list = Some(steps);
    }
    out
}
