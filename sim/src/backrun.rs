//! C19: the three real backends (sync, tokio, io_uring) against each other and
//! against the simulated host file.  The real backends do real I/O on temp
//! files; their scheduling is not under the simulator's control, so requests
//! are issued one at a time: this is a seeded differential check that
//! calibrates the stub (`PageFile` / `SimIo`) every other check trusts, not a
//! simulation.
use crate::chooser::{mix, Chooser, Rng};
use crate::content::{self, POISON};
use crate::props::{hash_str, panic_sig, take_panic, Override, Profile, RunOut};
use crate::sim::PageFile;
use crate::workload::{gen_cfg, gen_steps, Cfg, Op, Step};
use crate::world::{build_layer, layer_path, Oracles, Viol, World, PATH_PREFIX};
use qcow2_rs::dev::{Qcow2Dev, Qcow2DevParams};
use qcow2_rs::helpers::Qcow2IoBuf;
use qcow2_rs::ops::Qcow2IoOps;
use qcow2_rs::sync_io::Qcow2IoSync;
use qcow2_rs::tokio_io::Qcow2IoTokio;
use qcow2_rs::uring::Qcow2IoUring;
use serde_json::json;
use std::path::{Path, PathBuf};

pub fn back_gen(p: &mut Profile) {
    let g = &mut p.gen;
    g.cb_weights = [25, 10, 10, 25, 10, 20, 0, 0];
    g.allow_backing = true;
    g.allow_big_bs = false;
    g.min_ops = 4;
    g.max_ops = 14;
    g.par_pct = 0;
    g.op_weights = [45, 25, 12, 8, 3, 5, 1, 0, 1];
    g.l1_short_pct = 0;
    g.max_write_clusters = 4;
}

#[derive(Clone, Debug)]
enum Rq {
    Read { off: u64, len: usize },
    Write { off: u64, len: usize, fill: u64 },
    Punch { off: u64, len: usize },
    Fsync,
}

#[derive(Clone, Debug, PartialEq)]
enum Res {
    Read(Result<Vec<u8>, ()>),
    Unit(Result<(), ()>),
}

fn fill_bytes(fill: u64, len: usize) -> Vec<u8> {
    let mut x = fill | 1;
    (0..len)
        .map(|_| {
            x ^= x << 13;
            x ^= x >> 7;
            x ^= x << 17;
            (x >> 24) as u8 | 1
        })
        .collect()
}

fn gen_reqs(rng: &mut Rng, init_len: u64) -> Vec<Rq> {
    let n = rng.range(4, 24);
    let mut v = vec![];
    let mut flen = init_len;
    for _ in 0..n {
        let around = |rng: &mut Rng, flen: u64| -> u64 {
            match rng.below(8) {
                0 => 0,
                1 => flen,
                2 => flen.saturating_sub(rng.below(1024)),
                3 => flen + rng.below(4096),
                4 => flen.saturating_sub(512),
                5 => rng.below(flen + 1),
                6 => (rng.below(flen + 1) / 512) * 512,
                _ => flen + (1 << 20),
            }
        };
        let len = |rng: &mut Rng| -> usize {
            match rng.below(10) {
                0 => 0,
                1 => 1,
                2 => 511,
                3 => 512,
                4 => 4096,
                5 => 65536,
                6 => (3 << 20) + 512,
                _ => rng.range(1, 20000) as usize,
            }
        };
        let off = around(rng, flen);
        let l = len(rng);
        let r = match rng.below(10) {
            0..=3 => Rq::Read { off, len: l },
            4..=6 => {
                flen = flen.max(off + l as u64);
                Rq::Write {
                    off,
                    len: l,
                    fill: rng.next(),
                }
            }
            7..=8 => Rq::Punch { off, len: l },
            _ => Rq::Fsync,
        };
        v.push(r);
    }
    v
}

fn model_exec(f: &mut PageFile, r: &Rq) -> Res {
    match r {
        Rq::Read { off, len } => Res::Read(Ok(f.read_vec(*off, *len))),
        Rq::Write { off, len, fill } => {
            f.write(*off, &fill_bytes(*fill, *len));
            Res::Unit(Ok(()))
        }
        Rq::Punch { off, len } => {
            if *len == 0 {
                Res::Unit(Err(()))
            } else {
                f.punch(*off, *len as u64);
                Res::Unit(Ok(()))
            }
        }
        Rq::Fsync => Res::Unit(Ok(())),
    }
}

async fn backend_exec<T: Qcow2IoOps>(io: &T, r: &Rq) -> Res {
    match r {
        Rq::Read { off, len } => {
            let mut buf = vec![POISON; *len];
            match io.read_to(*off, &mut buf).await {
                Ok(n) => {
                    buf.truncate(n.min(*len));
                    Res::Read(Ok(buf))
                }
                Err(_) => Res::Read(Err(())),
            }
        }
        Rq::Write { off, len, fill } => {
            Res::Unit(io.write_from(*off, &fill_bytes(*fill, *len)).await.map_err(|_| ()))
        }
        Rq::Punch { off, len } => Res::Unit(io.fallocate(*off, *len, 0).await.map_err(|_| ())),
        Rq::Fsync => Res::Unit(io.fsync(0, usize::MAX, 0).await.map_err(|_| ())),
    }
}

fn describe(r: &Res) -> String {
    match r {
        Res::Read(Ok(v)) => format!("Ok(read {} bytes, hash {:x})", v.len(), hash_str(&format!("{v:?}"))),
        Res::Read(Err(())) => "Err".into(),
        Res::Unit(x) => format!("{x:?}"),
    }
}

fn tmpdir(run: u64) -> PathBuf {
    let base = std::env::var("QSIM_TMP").unwrap_or_else(|_| "/tmp".into());
    let d = PathBuf::from(format!("{base}/qsim-c19-{}-{run}", std::process::id()));
    let _ = std::fs::remove_dir_all(&d);
    std::fs::create_dir_all(&d).expect("cannot create temp dir");
    d
}

fn push(out: &mut RunOut, sig: &str, detail: String) {
    out.viols.push(Viol {
        props: vec!["C19"],
        sig: sig.to_string(),
        detail,
        step: 0,
        nonfatal: false,
    });
}

fn requests_case(seed: u64, run: u64, out: &mut RunOut) {
    let mut rng = Rng::new(mix(mix(seed, 0xbac4), run));
    let init_len = *rng.pick(&[0u64, 1, 511, 512, 4096, 5000, 65536, 100_000]);
    let init: Vec<u8> = fill_bytes(rng.next(), init_len as usize);
    let reqs = gen_reqs(&mut rng, init_len);
    out.geo = "requests".into();
    out.cfg_hash = hash_str(&format!("{reqs:?}{init_len}"));
    let dir = tmpdir(run);
    let mut model = PageFile::from_bytes(&init);
    let want: Vec<Res> = reqs.iter().map(|r| model_exec(&mut model, r)).collect();
    let want_final = model.to_bytes();
    let mut skipped = vec![];
    for backend in ["sync", "tokio", "uring"] {
        let path = dir.join(format!("{backend}.img"));
        std::fs::write(&path, &init).unwrap();
        let reqs2 = reqs.clone();
        let p2 = path.clone();
        let got: Result<Vec<Res>, String> = match backend {
            "sync" => {
                let io = Qcow2IoSync::new(&p2, false, false);
                Ok(futures::executor::block_on(async {
                    let mut v = vec![];
                    for r in &reqs2 {
                        v.push(backend_exec(&io, r).await);
                    }
                    v
                }))
            }
            "tokio" => {
                let rt = tokio::runtime::Builder::new_current_thread()
                    .enable_all()
                    .build()
                    .unwrap();
                Ok(rt.block_on(async {
                    let io = Qcow2IoTokio::new(&p2, false, false).await;
                    let mut v = vec![];
                    for r in &reqs2 {
                        v.push(backend_exec(&io, r).await);
                    }
                    v
                }))
            }
            _ => {
                let r = std::panic::catch_unwind(|| {
                    tokio_uring::start(async {
                        let io = Qcow2IoUring::new(&p2, false, false).await;
                        let mut v = vec![];
                        for r in &reqs2 {
                            v.push(backend_exec(&io, r).await);
                        }
                        v
                    })
                });
                r.map_err(|_| format!("io_uring not usable here: {}", take_panic()))
            }
        };
        let got = match got {
            Ok(g) => g,
            Err(e) => {
                skipped.push(format!("{backend}: {e}"));
                continue;
            }
        };
        for (i, (w, g)) in want.iter().zip(&got).enumerate() {
            if w != g {
                push(
                    out,
                    &format!("backend-differs-from-model/{backend}/{}", match &reqs[i] {
                        Rq::Read { .. } => "read",
                        Rq::Write { .. } => "write",
                        Rq::Punch { .. } => "punch",
                        Rq::Fsync => "fsync",
                    }),
                    format!(
                        "initial length {init_len}; request {i} {:?} of {:?}: host-file model {} / {backend} backend {}",
                        reqs[i],
                        reqs,
                        describe(w),
                        describe(g)
                    ),
                );
                let _ = std::fs::remove_dir_all(&dir);
                return;
            }
        }
        let fin = std::fs::read(&path).unwrap();
        if fin != want_final {
            push(
                out,
                &format!("final-file-differs/{backend}"),
                format!(
                    "requests {:?}: file length model {} / {backend} {}, first difference at {:?}",
                    reqs,
                    want_final.len(),
                    fin.len(),
                    fin.iter().zip(&want_final).position(|(a, b)| a != b)
                ),
            );
            let _ = std::fs::remove_dir_all(&dir);
            return;
        }
        *out.stats.entry(format!("request_sequences_{backend}")).or_insert(0) += 1;
        *out.stats.entry("backend_requests_compared".into()).or_insert(0) += reqs.len() as u64;
    }
    if !skipped.is_empty() {
        out.stats.insert("backends_skipped".into(), skipped.len() as u64);
        out.extra = json!({"skipped": skipped});
    }
    out.nontrivial = reqs.iter().any(|r| matches!(r, Rq::Write { .. } | Rq::Punch { .. }));
    let _ = std::fs::remove_dir_all(&dir);
}

/// the guest-visible trace of a history: result of every op + final content
type Trace = Vec<String>;

async fn run_history<T: Qcow2IoOps>(dev: &Qcow2Dev<T>, cfg: &Cfg, steps: &[Step], clusters: &[u64]) -> Trace {
    let mut t = vec![];
    let mut next_id = 1u64 << 50;
    let cs = cfg.cs();
    let vend = cfg.vend();
    for st in steps {
        let Step::Seq(op) = st else { continue };
        match op {
            Op::Write { off, len } => {
                let base = next_id;
                next_id += 1 << 15;
                let mut buf = Qcow2IoBuf::<u8>::new(*len as usize);
                content::fill((0..(*len as u64 / 512)).map(|s| base + s), &mut buf);
                let r = dev.write_at(&buf, *off).await;
                t.push(format!("write {off:#x}+{len}: {}", r.is_ok()));
            }
            Op::Read { off, len } => {
                let mut buf = Qcow2IoBuf::<u8>::new(*len as usize);
                buf.fill(POISON);
                let r = dev.read_at(&mut buf, *off).await;
                t.push(format!(
                    "read {off:#x}+{len}: {:?} {:x}",
                    r.as_ref().map(|n| *n).map_err(|_| ()),
                    hash_str(&format!("{:?}", &buf[..]))
                ));
            }
            Op::Discard { off, len } => {
                let r = dev.discard(*off, *len).await;
                t.push(format!("discard {off:#x}+{len}: {}", r.is_ok()));
            }
            Op::Flush | Op::SyncPoint | Op::Reopen { .. } => {
                let r = dev.flush_meta().await;
                t.push(format!("flush: {}", r.is_ok()));
            }
            Op::Shrink => {
                let r = dev.shrink_caches().await;
                t.push(format!("shrink: {}", r.is_ok()));
            }
            Op::Fsync => {
                let r = dev.fsync_range(0, usize::MAX).await;
                t.push(format!("fsync: {}", r.is_ok()));
            }
            _ => {}
        }
    }
    let _ = dev.flush_meta().await;
    for g in clusters {
        let off = g * cs;
        if off >= vend {
            continue;
        }
        let len = cs.min(vend - off) as usize;
        let mut buf = Qcow2IoBuf::<u8>::new(len);
        buf.fill(POISON);
        let r = dev.read_at(&mut buf, off).await;
        t.push(format!(
            "final {off:#x}: {:?} {}",
            r.as_ref().map(|n| *n).map_err(|_| ()),
            content::describe(&buf[..512])
        ));
        t.push(format!("final-hash {off:#x}: {:x}", hash_str(&format!("{:?}", &buf[..]))));
    }
    t
}

fn history_case(p: &Profile, seed: u64, run: u64, out: &mut RunOut) -> Option<(Cfg, Vec<Step>)> {
    let s = mix(mix(seed, hash_str(p.id)), run);
    let mut rng = Rng::new(s);
    let dir = tmpdir(run);
    let prefix = dir.to_string_lossy().to_string();
    PATH_PREFIX.with(|p| *p.borrow_mut() = prefix.clone());
    let mut cfg = gen_cfg(&mut rng, &p.gen);
    cfg.bs_bits = 9;
    cfg.punch_unsupported = false;
    cfg.read_only = false;
    // parameters must be legal for the smallest cluster of the chain
    let steps: Vec<Step> = gen_steps(&mut rng, &cfg, &p.gen)
        .into_iter()
        .filter(|s| matches!(s, Step::Seq(_)))
        .collect();
    out.geo = cfg.geo_key();
    out.cfg_hash = hash_str(&serde_json::to_string(&(&cfg, &steps)).unwrap());
    // the simulated device: reference trace
    let mut oracles = Oracles::default();
    oracles.snapshot = false;
    oracles.need_flush = false;
    oracles.flush_reopen = false;
    oracles.flush_check = false;
    oracles.sweep_every = 0;
    oracles.readback = false;
    oracles.final_reopen = false;
    let mut w = World::new(&cfg, Chooser::generate(mix(s, 3)), oracles);
    w.sim.core.inline_only.set(true);
    if !w.open() {
        out.viols = w.viols.clone();
        PATH_PREFIX.with(|p| *p.borrow_mut() = "/sim".into());
        let _ = std::fs::remove_dir_all(&dir);
        return Some((cfg, steps));
    }
    let clusters: Vec<u64> = {
        let mut c: std::collections::BTreeSet<u64> = w.interesting.clone();
        let cs = cfg.cs();
        for st in &steps {
            if let Step::Seq(Op::Write { off, len }) = st {
                for g in (off / cs)..=((off + *len as u64 - 1) / cs) {
                    c.insert(g);
                }
            }
        }
        c.into_iter().take(200).collect()
    };
    let want: Trace = {
        let dev = w.dev.as_ref().unwrap();
        let _g = w.sim.enter();
        match w.sim.run_one(run_history(dev, &cfg, &steps, &clusters), 5_000_000) {
            Ok(t) => t,
            Err(e) => {
                push(out, "sim-history-stuck", format!("{e:?}"));
                vec![]
            }
        }
    };
    let n = cfg.layers.len();
    let params = Qcow2DevParams::new(cfg.bs_bits, cfg.rb_cache, cfg.l2_cache, false, false);
    let mut skipped = vec![];
    for backend in ["sync", "tokio", "uring"] {
        if !out.viols.is_empty() {
            break;
        }
        for (i, l) in cfg.layers.iter().enumerate() {
            std::fs::write(layer_path(i), build_layer(l, i, n, 512)).unwrap();
        }
        let top = PathBuf::from(layer_path(0));
        let got: Result<Trace, String> = match backend {
            "sync" => match qcow2_rs::utils::qcow2_setup_dev_sync(&top, &params) {
                Ok(dev) => Ok(futures::executor::block_on(async {
                    let _ = dev.qcow2_prep_io().await;
                    run_history(&dev, &cfg, &steps, &clusters).await
                })),
                Err(e) => Err(format!("open failed: {e:?}")),
            },
            "tokio" => {
                let rt = tokio::runtime::Builder::new_current_thread()
                    .enable_all()
                    .build()
                    .unwrap();
                rt.block_on(async {
                    match qcow2_rs::utils::qcow2_setup_dev_tokio(&top, &params).await {
                        Ok(dev) => Ok(run_history(&dev, &cfg, &steps, &clusters).await),
                        Err(e) => Err(format!("open failed: {e:?}")),
                    }
                })
            }
            _ => {
                let (cfg2, steps2, cl2, top2, p2) =
                    (cfg.clone(), steps.clone(), clusters.clone(), top.clone(), params.clone());
                let r = std::panic::catch_unwind(move || {
                    tokio_uring::start(async move {
                        match qcow2_rs::utils::qcow2_setup_dev_uring(&top2, &p2).await {
                            Ok(dev) => Ok(run_history(&dev, &cfg2, &steps2, &cl2).await),
                            Err(e) => Err(format!("open failed: {e:?}")),
                        }
                    })
                });
                match r {
                    Ok(x) => x,
                    Err(_) => {
                        skipped.push(format!("uring: {}", take_panic()));
                        continue;
                    }
                }
            }
        };
        match got {
            Err(e) => push(out, &format!("history-open-failed/{backend}"), e),
            Ok(t) => {
                if t != want {
                    let i = t.iter().zip(&want).position(|(a, b)| a != b).unwrap_or(0);
                    push(
                        out,
                        &format!("guest-history-differs/{backend}"),
                        format!(
                            "entry {i}: simulated device '{}' / {backend} device '{}'",
                            want.get(i).cloned().unwrap_or_default(),
                            t.get(i).cloned().unwrap_or_default()
                        ),
                    );
                } else {
                    *out.stats.entry(format!("guest_histories_{backend}")).or_insert(0) += 1;
                }
            }
        }
    }
    if !skipped.is_empty() {
        out.stats.insert("backends_skipped".into(), skipped.len() as u64);
    }
    out.nontrivial = true;
    out.steps = w.sim.core.steps.get();
    PATH_PREFIX.with(|p| *p.borrow_mut() = "/sim".into());
    let _ = std::fs::remove_dir_all(&dir);
    Some((cfg, steps))
}

pub fn run_back(p: &Profile, seed: u64, run: u64, _ov: &Override, want_case: bool) -> RunOut {
    let mut out = RunOut {
        run,
        ..Default::default()
    };
    let kind = if run % 2 == 0 { "requests" } else { "history" };
    let mut case = None;
    let r = std::panic::catch_unwind(std::panic::AssertUnwindSafe(|| {
        let mut o2 = RunOut {
            run,
            ..Default::default()
        };
        let c = if kind == "requests" {
            requests_case(seed, run, &mut o2);
            None
        } else {
            history_case(p, seed, run, &mut o2)
        };
        (o2, c)
    }));
    match r {
        Ok((o2, c)) => {
            out = o2;
            case = c;
        }
        Err(_) => {
            let info = take_panic();
            PATH_PREFIX.with(|p| *p.borrow_mut() = "/sim".into());
            push(&mut out, &panic_sig(&info), format!("[{kind}] panic: {info}"));
        }
    }
    if out.extra.is_null() {
        out.extra = json!({});
    }
    out.extra["kind"] = json!(kind);
    if want_case || !out.viols.is_empty() {
        if let Some((c, s)) = case {
            out.cfg = Some(c);
            out.steps_list = Some(s);
        }
    }
    let _ = Path::new("/");
    out
}
