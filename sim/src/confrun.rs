//! C09: specification conformance.  (a) spec-valid images from the
//! independent builder are opened by the real library (default and custom
//! parameters); get_mapping() and read_at() must agree with the independent
//! reader for the guest clusters of the ground truth, their neighbours, the
//! boundaries and a random sample.  (b) images formatted by the library must
//! be exact under the independent checker and carry the geometry the
//! specification's formulas give; a formatted image must also work (write,
//! read, flush, exact again).
use crate::chooser::{mix, Chooser, Rng};
use crate::content::POISON;
use crate::props::{hash_str, panic_sig, take_panic, Override, Profile, RunOut};
use crate::qspec::{self, GClass};
use crate::sim::PageFile;
use crate::workload::{gen_cfg, Cfg, GenOpts};
use crate::world::{layer_path, Viol, World, STEP_BUDGET};
use qcow2_rs::helpers::Qcow2IoBuf;
use qcow2_rs::meta::{MappingSource, Qcow2Header};
use std::collections::BTreeSet;

pub fn conf_gen(p: &mut Profile) {
    let g = &mut p.gen;
    g.force_builder = true;
    g.cb_weights = [14, 8, 8, 12, 12, 12, 10, 6];
    g.allow_default_params = true;
    g.tiny_cache_pct = 30;
    g.l1_short_pct = 10;
    g.schedule_knobs = true;
    let o = &mut p.oracles;
    o.fault_free = true;
}

fn push(out: &mut RunOut, props: &[&'static str], sig: &str, detail: String) {
    out.viols.push(Viol {
        props: props.to_vec(),
        sig: sig.to_string(),
        detail,
        step: 0,
        nonfatal: false,
    });
}

fn foreign_image_case(p: &Profile, seed: u64, run: u64, ov: &Override, out: &mut RunOut) -> Option<Cfg> {
    let s = mix(mix(seed, hash_str(p.id)), run);
    let mut rng = Rng::new(s);
    let gcfg = gen_cfg(&mut rng, &p.gen);
    let mut cfg = ov.cfg.clone().unwrap_or(gcfg);
    if ov.cfg.is_none() && rng.chance(1, 3) {
        // default parameters, as most users open images
        cfg.l2_cache = None;
        cfg.rb_cache = None;
    }
    out.geo = cfg.geo_key();
    out.cfg_hash = hash_str(&serde_json::to_string(&cfg).unwrap());
    let short = crate::props::cfg_short_l1(&cfg);
    let mut w = World::new(&cfg, Chooser::generate(mix(s, 5)), p.oracles.clone());
    let img = w.sim.file_content(w.files[0]);
    // the builder's image must be exact for the independent checker
    let v = qspec::check_image(&img, true);
    if let Some((c, d)) = v.first_problem(false) {
        push(out, &["C09"], "harness/builder-image-not-exact", format!("{c}: {d}"));
        return Some(cfg);
    }
    let h = qspec::parse_header(&img).unwrap();
    if !w.open() {
        out.viols = w.viols.clone();
        return Some(cfg);
    }
    let cs = cfg.cs();
    let gcl = cfg.vsize().div_ceil(cs);
    let vend = cfg.vend();
    let mut clusters: BTreeSet<u64> = w.interesting.clone();
    for (g, _) in &cfg.layers[0].guest {
        clusters.insert(*g);
        clusters.insert(g.saturating_sub(1));
        clusters.insert((g + 1).min(gcl - 1));
    }
    for _ in 0..12 {
        clusters.insert(rng.below(gcl));
    }
    let l2n = cs / 8;
    for b in [l2n - 1, l2n, 2 * l2n - 1, 2 * l2n] {
        if b < gcl {
            clusters.insert(b);
        }
    }
    let mut checked = 0u64;
    // multi-cluster reads first, on the cold device: across every L2 table
    // boundary (from an absent table into a present one and back) and across
    // random stretches
    {
        let bs = cfg.bs();
        let mut spans: Vec<(u64, u64)> = vec![];
        let mut b = l2n;
        while b < gcl && spans.len() < 6 {
            let a0 = b.saturating_sub(rng.range(1, 8));
            let a1 = (b + rng.range(1, 8)).min(gcl);
            spans.push((a0, a1));
            b += l2n;
        }
        for _ in 0..3 {
            let a0 = rng.below(gcl);
            let a1 = (a0 + rng.range(2, 40)).min(gcl);
            spans.push((a0, a1));
        }
        for (a0, a1) in spans {
            let off = a0 * cs;
            let end = (a1 * cs).min(vend).min(off + (2 << 20));
            if end <= off {
                continue;
            }
            let len = ((end - off) / bs * bs) as usize;
            if len == 0 {
                continue;
            }
            if !w.do_read_check(off, len, &format!("multi-cluster read of guest clusters {a0}..{a1}"), &["C09"]) {
                break;
            }
            checked += 1;
        }
    }
    for g in clusters {
        if w.failed() {
            break;
        }
        let off = g * cs;
        if off >= vend {
            continue;
        }
        let want = match qspec::guest_class(&img, &h, g) {
            Ok(c) => c,
            Err(e) => {
                push(out, &["C09"], "harness/reader-failed", e);
                return Some(cfg);
            }
        };
        let dev = w.dev.as_ref().unwrap();
        let m = match w.sim.run_one(async { dev.get_mapping(off).await }, STEP_BUDGET) {
            Ok(Ok(m)) => m,
            Ok(Err(e)) => {
                w.viol(&["C09"], "get-mapping-failed", format!("guest cluster {g}: {e:?}"));
                break;
            }
            Err(s) => {
                w.viol(&["C09", "C07"], "get-mapping-stuck", format!("guest cluster {g}: {s:?}"));
                break;
            }
        };
        let ok = match want {
            GClass::Unalloc => {
                matches!(m.source, MappingSource::Unallocated | MappingSource::Backing)
                    && (m.source == MappingSource::Backing) == (cfg.layers.len() > 1)
            }
            GClass::Zero { .. } => m.source == MappingSource::Zero,
            GClass::Data { host, .. } => {
                m.source == MappingSource::DataFile && m.cluster_offset == Some(host)
            }
            GClass::Compressed { off, len } => {
                m.source == MappingSource::Compressed
                    && m.cluster_offset == Some(off)
                    && m.compressed_length == Some(len as usize)
            }
        };
        if !ok {
            w.viol(
                &["C09"],
                "mapping-disagrees-with-spec",
                format!("guest cluster {g}: get_mapping = {m}, the specification says {want:?}"),
            );
            break;
        }
        let len = cs.min(vend - off) as usize;
        if !w.do_read_check(off, len, &format!("guest cluster {g}"), &["C09"]) {
            break;
        }
        checked += 1;
    }
    // a multi-cluster read across everything interesting
    if !w.failed() {
        let _ = w.sweep("sweep", &["C09"]);
    }
    out.viols = w.viols.clone();
    out.steps = w.sim.core.steps.get();
    out.reqs = w.sim.core.reqs.borrow().len() as u64;
    out.fingerprint = w.sim.core.fingerprint.get();
    out.nontrivial = checked > 0;
    out.stats.insert("foreign_images".into(), 1);
    out.stats.insert("guest_clusters_compared".into(), checked);
    if short {
        out.stats.insert("short_l1_images".into(), 1);
    }
    Some(cfg)
}

fn format_case(seed: u64, run: u64, out: &mut RunOut) {
    let mut rng = Rng::new(mix(mix(seed, 0xf0a7), run));
    // a quarter of the cases: geometries where the formatter has to plan
    // several refcount blocks, with the metadata around a block boundary
    let boundary = rng.chance(1, 4);
    let (cb, ro) = if boundary {
        let cb = rng.range(9, 12) as u32;
        let lo = (0..=6u32)
            .find(|ro| 5 * ((8u64 << cb) >> ro) * (1u64 << cb) <= (32u64 << 20))
            .unwrap_or(6);
        (cb, rng.range(lo as u64, 6) as u32)
    } else {
        (rng.range(9, 21) as u32, rng.range(0, 6) as u32)
    };
    let cs = 1u64 << cb;
    let bs_bits = *rng.pick(&[9u32, 9, 10, 12]);
    let bs_bits = bs_bits.min(cb);
    let bs = 1usize << bs_bits;
    let l2cover = (cs / 8) * cs;
    // supported sizes: L1 <= 32 MiB
    let rbe = cs * 8 / (1u64 << ro);
    let max_l1_entries = (32u64 << 20) / 8;
    let mut vsize = match if boundary { 6 } else { rng.below(6) } {
        6 => {
            // 1 + reftable + k blocks + L1 around k * (entries of a block)
            let k = rng.range(2, 5);
            let l1c = (k * rbe).saturating_sub(2 + rng.range(0, k + 1)).max(1);
            let l1c = l1c.min(max_l1_entries * 8 / cs).max(1);
            let v = (l1c * (cs / 8)).saturating_sub(rng.below(2)).max(1).saturating_mul(l2cover);
            if v > (1u64 << 48) {
                l2cover * rng.range(1, 16)
            } else {
                v
            }
        }
        0 => cs * rng.range(1, 64),
        1 => l2cover * rng.range(1, 16),
        2 => l2cover * rng.range(1, 16) + 512 * rng.range(1, 2 * cs / 512),
        3 => 512 * rng.range(1, 4096),
        4 => (1u64 << rng.range(20, 44)) + 512 * rng.below(1024),
        _ => l2cover * rng.range(100, 5000),
    };
    vsize = vsize / bs as u64 * bs as u64;
    vsize = vsize.max(bs as u64);
    let l1_entries = vsize.div_ceil(l2cover);
    if l1_entries > max_l1_entries {
        vsize = l2cover * max_l1_entries;
    }
    let l1_entries = vsize.div_ceil(l2cover);
    let l1_clusters = (l1_entries * 8).div_ceil(cs);
    // refcount table as the formatter sizes it
    let rt_entries = vsize.div_ceil(rbe * cs);
    let rt_bytes = (rt_entries * 8).div_ceil(bs as u64) * bs as u64;
    let rt_clusters = rt_bytes.min(8 << 20).div_ceil(cs);
    if 1 + rt_clusters + 1 + l1_clusters > rbe {
        // the initial metadata needs more than one refcount block
        out.stats.insert("format_multi_refblock".into(), 1);
    }
    out.geo = format!("fmt-cb{cb}-ro{ro}-bs{bs_bits}");
    out.cfg_hash = hash_str(&format!("{cb}/{ro}/{bs_bits}/{vsize}"));
    let what = format!("format(size={vsize:#x}, cluster_bits={cb}, refcount_order={ro}, block_size={bs})");
    let (rc_t, rc_b, _l1) = Qcow2Header::calculate_meta_params(vsize, cb as usize, ro as u8, bs);
    let clusters = 1 + rc_t.1 + rc_b.1;
    let img_size = ((clusters as usize) << cb) + bs;
    let mut buf = vec![0u8; img_size];
    if let Err(e) = Qcow2Header::format_qcow2(&mut buf, vsize, cb as usize, ro as u8, bs) {
        push(out, &["C09", "C20"], "format-failed", format!("{what}: {e:?}"));
        return;
    }
    out.stats.insert("formatted_images".into(), 1);
    out.nontrivial = true;
    let v = qspec::check_image(&buf, true);
    if let Some((c, d)) = v.first_problem(false) {
        push(
            out,
            &["C09", "C20"],
            &format!("formatted-image/{c}"),
            format!("{what}: {d}"),
        );
        return;
    }
    let h = qspec::parse_header(&buf).unwrap();
    if h.size != vsize
        || h.cluster_bits != cb
        || h.refcount_order != ro
        || h.version != 3
        || (h.l1_size as u64) != vsize.div_ceil(l2cover)
    {
        push(
            out,
            &["C09", "C20"],
            "formatted-image/header-fields",
            format!("{what}: header {h:?}"),
        );
        return;
    }
    // open it, check the derived geometry, use it
    let mut cfg: Cfg = {
        let mut r2 = Rng::new(1);
        let mut o = GenOpts::default();
        o.allow_backing = false;
        gen_cfg(&mut r2, &o)
    };
    cfg.layers.truncate(1);
    let l = &mut cfg.layers[0];
    l.cluster_bits = cb;
    l.refcount_order = ro;
    l.version = 3;
    l.vsize = vsize;
    l.formatted = true;
    l.guest.clear();
    l.empty_l2.clear();
    cfg.bs_bits = bs_bits as u8;
    cfg.l2_cache = None;
    cfg.rb_cache = None;
    cfg.read_only = false;
    let mut oracles = crate::world::Oracles::default();
    oracles.flush_reopen = false;
    oracles.need_flush = false;
    oracles.sweep_every = 0;
    let mut w = World::new(&cfg, Chooser::generate(mix(seed, run)), oracles);
    // make sure the world runs on the very buffer that was checked
    w.sim.set_file_content(w.files[0], PageFile::from_bytes(&buf));
    if !w.open() {
        out.viols = w.viols.clone();
        return;
    }
    {
        let info = &w.dev.as_ref().unwrap().info;
        let geo_ok = info.cluster_bits() == cb as usize
            && info.cluster_size() as u64 == cs
            && info.virtual_size() == vsize
            && info.l2_entries() as u64 == cs / 8
            && info.rb_entries() as u64 == rbe
            && info.refcount_order() as u32 == ro;
        if !geo_ok {
            w.viol(
                &["C09"],
                "geometry-disagrees-with-spec",
                format!("{what}: info {:?}", info),
            );
        }
    }
    if !w.failed() {
        let vend = cfg.vend();
        let first = crate::workload::Op::Write {
            off: 0,
            len: (bs as u64).min(vend) as u32,
        };
        let last = crate::workload::Op::Write {
            off: vend - bs as u64,
            len: bs as u32,
        };
        let _ = w.exec_seq(&first) && w.exec_seq(&last) && w.exec_seq(&crate::workload::Op::Flush);
        if !w.failed() {
            let mut b = Qcow2IoBuf::<u8>::new(bs);
            b.fill(POISON);
            let _ = w.do_read_check(vend - bs as u64, bs, "last block", &["C09"]);
        }
    }
    out.viols = w.viols.clone();
    out.steps = w.sim.core.steps.get();
    out.reqs = w.sim.core.reqs.borrow().len() as u64;
    out.fingerprint = w.sim.core.fingerprint.get();
    let _ = layer_path(0);
}

pub fn run_conf(p: &Profile, seed: u64, run: u64, ov: &Override, want_case: bool) -> RunOut {
    let mut out = RunOut {
        run,
        ..Default::default()
    };
    let _ = qcow2_rs::verif::take_probes();
    crate::props::KF02_TAINT.with(|t| t.set(false));
    let kind = ov
        .extra
        .as_ref()
        .and_then(|e| e.get("kind").and_then(|k| k.as_str().map(|s| s.to_string())))
        .unwrap_or_else(|| if run % 3 == 2 { "format".into() } else { "foreign".into() });
    let mut cfg_used: Option<Cfg> = None;
    let r = std::panic::catch_unwind(std::panic::AssertUnwindSafe(|| {
        let mut o2 = RunOut {
            run,
            ..Default::default()
        };
        let c = if kind == "format" {
            format_case(seed, run, &mut o2);
            None
        } else {
            foreign_image_case(p, seed, run, ov, &mut o2)
        };
        (o2, c)
    }));
    match r {
        Ok((o2, c)) => {
            out = o2;
            cfg_used = c;
        }
        Err(_) => {
            let info = take_panic();
            push(&mut out, &["C09"], &panic_sig(&info), format!("[{kind}] panic: {info}"));
        }
    }
    out.extra = serde_json::json!({"kind": kind});
    for (k, v) in qcow2_rs::verif::take_probes() {
        out.probes.insert(k.to_string(), v);
    }
    if want_case || !out.viols.is_empty() {
        out.cfg = cfg_used;
        out.steps_list = Some(vec![]);
    }
    out
}
