//! C04 / C05 / C12: run a history on the real device, then enumerate the crash
//! states of its recorded request log and judge every one of them.
use crate::chooser::{mix, Chooser, Rng};
use crate::content::{self, POISON};
use crate::crash::{self, Timeline};
use crate::props::{gen_case, hash_str, panic_sig, take_panic, Override, Profile, RunOut};
use crate::qspec;
use crate::sim::{PageFile, Sim};
use crate::workload::{Cfg, Op, Step};
use crate::world::{layer_path, setup_dev, OpSpan, SyncPt, Viol, World, STEP_BUDGET};
use qcow2_rs::dev::Qcow2DevParams;
use qcow2_rs::helpers::Qcow2IoBuf;
use serde_json::json;
use std::collections::{BTreeMap, BTreeSet, HashSet};
use std::path::Path;

pub struct CrashBudget {
    pub max_points: usize,
    pub max_images: usize,
    pub torn: usize,
    pub max_opens: usize,
}

/// open a device on `img` (plus the unchanged backing files) and call f
fn with_dev_on<R>(
    w: &World,
    img: &PageFile,
    f: impl FnOnce(&Sim, &crate::world::Dev) -> R,
) -> Result<R, String> {
    let sim = Sim::new(Chooser::generate(11));
    sim.core.inline_only.set(true);
    let bs = 1usize << w.cfg.bs_bits;
    for (i, fid) in w.files.iter().enumerate() {
        let c = if i == 0 {
            img.clone()
        } else {
            w.sim.file_content(*fid)
        };
        sim.add_file(&layer_path(i), c, bs);
    }
    let _g = sim.enter();
    let params = Qcow2DevParams::new(w.cfg.bs_bits, w.cfg.rb_cache, w.cfg.l2_cache, true, false);
    let path = layer_path(0);
    let dev = match sim.run_one(setup_dev(Path::new(&path), &params), STEP_BUDGET) {
        Ok(Ok(d)) => d,
        Ok(Err(e)) => return Err(format!("open failed: {e:?}")),
        Err(s) => return Err(format!("open did not finish: {s:?}")),
    };
    Ok(f(&sim, &dev))
}

fn read_cluster(sim: &Sim, dev: &crate::world::Dev, off: u64, len: usize) -> Result<Vec<u8>, String> {
    let mut buf = Qcow2IoBuf::<u8>::new(len);
    buf.fill(POISON);
    match sim.run_one(async { dev.read_at(&mut buf, off).await }, STEP_BUDGET) {
        Ok(Ok(n)) if n == len => Ok(buf.to_vec()),
        Ok(Ok(n)) => Err(format!("read_at({off:#x},{len}) returned {n}")),
        Ok(Err(e)) => Err(format!("read_at({off:#x},{len}) failed: {e:?}")),
        Err(s) => Err(format!("read_at({off:#x},{len}) did not finish: {s:?}")),
    }
}

/// values a sector may hold after a crash at `k` given the last sync point
fn allowed_values(sp: &SyncPt, spans: &[OpSpan], k: u64, sec: u64, cs: u64, vsize: u64) -> Vec<u64> {
    let mut v = vec![sp.model.sector_id(sec)];
    if let Some(a) = sp.alt.get(&sec) {
        v.extend(a.iter().copied());
    }
    let byte = sec * 512;
    for s in spans {
        if s.end_seq < sp.alt_from || s.start_seq > k {
            continue;
        }
        match s.base {
            Some(base) => {
                if byte >= s.off && byte + 512 <= s.off + s.len {
                    v.push(base + (byte - s.off) / 512);
                }
                // a partial write to a cluster may also zero / re-merge the
                // rest of that cluster (first write to a fresh cluster): the
                // synced value stays the reference, nothing to add
            }
            None => {
                let end = s.off.saturating_add(s.len).min(vsize);
                let a = s.off.div_ceil(cs);
                let b = end / cs;
                let g = byte / cs;
                if g >= a && g < b {
                    v.push(0);
                }
            }
        }
    }
    v
}

pub fn crash_budget(prop: &str) -> CrashBudget {
    match prop {
        "C05" => CrashBudget {
            max_points: 160,
            max_images: 1500,
            torn: 3,
            max_opens: 220,
        },
        "C12" => CrashBudget {
            max_points: 120,
            max_images: 1500,
            torn: 3,
            max_opens: 60,
        },
        _ => CrashBudget {
            max_points: 400,
            max_images: 6000,
            torn: 6,
            max_opens: 40,
        },
    }
}

pub fn run_crash(p: &Profile, seed: u64, run: u64, ov: &Override, want_case: bool) -> RunOut {
    let (gcfg, gsteps, sched_seed) = gen_case(p, seed, run);
    let cfg = ov.cfg.clone().unwrap_or(gcfg);
    let steps = ov.steps.clone().unwrap_or(gsteps);
    let ch = match &ov.sched {
        Some(l) => Chooser::replay(l.clone()),
        None => Chooser::generate(sched_seed),
    };
    let mut out = RunOut {
        run,
        geo: cfg.geo_key(),
        cfg_hash: hash_str(&serde_json::to_string(&(&cfg, &steps)).unwrap()),
        ..Default::default()
    };
    let _ = qcow2_rs::verif::take_probes();
    crate::props::KF02_TAINT.with(|t| t.set(false));
    let oracles = p.oracles.clone();
    let prop = p.id;
    let res = std::panic::catch_unwind(std::panic::AssertUnwindSafe(|| {
        let mut w = World::new(&cfg, ch, oracles);
        if std::env::var("QSIM_TRACE").is_ok() {
            w.sim.core.trace_on.set(true);
        }
        w.run_steps_seq(&steps);
        crate::props::debug_dump(&w);
        let mut extra = BTreeMap::new();
        if !w.failed() {
            enumerate(&mut w, prop, mix(sched_seed, 77), &mut extra);
        }
        (w, extra)
    }));
    match res {
        Ok((w, extra)) => {
            out.viols = w.viols.clone();
            out.steps = w.sim.core.steps.get();
            out.reqs = w.sim.core.reqs.borrow().len() as u64;
            out.fingerprint = w.sim.core.fingerprint.get();
            out.nontrivial = extra.get("crash_images").copied().unwrap_or(0) > 1;
            for (k, v) in &w.stats {
                out.stats.insert(k.to_string(), *v);
            }
            for (k, v) in extra {
                out.stats.insert(k.to_string(), v);
            }
            for (k, v) in w.sim.core.faults_fired.borrow().iter() {
                out.faults.insert(k.to_string(), *v);
            }
            out.sched = w.sim.core.ch.borrow().rec.clone();
        }
        Err(_) => {
            let info = take_panic();
            out.viols.push(Viol {
                props: vec![p.id],
                sig: panic_sig(&info),
                detail: format!("panic: {info}"),
                step: 0,
                nonfatal: false,
            });
        }
    }
    for (k, v) in qcow2_rs::verif::take_probes() {
        out.probes.insert(k.to_string(), v);
    }
    if p.id == "C12" {
        // C12 = C01..C05 (and progress) across metadata growth: everything
        // observed in a growth history counts against it
        for v in out.viols.iter_mut() {
            if !v.props.contains(&"C12") {
                v.props.push("C12");
            }
        }
    }
    if want_case || !out.viols.is_empty() {
        out.cfg = Some(cfg);
        out.steps_list = Some(steps);
    }
    out
}

fn describe_point(tl: &Timeline, cp: &crash::CrashPoint, c: &crash::Choice) -> String {
    let mut s = format!(
        "crash at event {} ({} volatile requests), persisted subset '{}':",
        cp.seq,
        cp.vols.len(),
        c.name
    );
    for (v, sel) in cp.vols.iter().zip(&c.sel) {
        let r = tl.reqs[v.req];
        let kept = sel.iter().filter(|b| **b).count();
        s.push_str(&format!(
            "\n    #{} {} off={:#x} len={} op={} submitted@{} completed@{:?}{}: {}/{} blocks persisted",
            r.id,
            r.kind.name(),
            r.off,
            r.len,
            r.api_op,
            r.submit_seq,
            r.complete_seq.filter(|x| *x <= cp.seq),
            if v.gray { " [durable under the literal rule]" } else { "" },
            kept,
            v.nblocks
        ));
    }
    s
}

fn enumerate(w: &mut World, prop: &str, seed: u64, extra: &mut BTreeMap<&'static str, u64>) {
    let mut budget = crash_budget(prop);
    // judging one image costs in proportion to its size: big host files
    // (the 8..32 MiB growth histories) get a smaller share
    let flen = w.sim.file_content(w.files[0]).len();
    if flen > (6 << 20) {
        budget.max_points = budget.max_points / 3;
        budget.max_images = budget.max_images / 6;
        budget.max_opens = budget.max_opens / 4;
    }
    let reqs = w.sim.core.reqs.borrow().clone();
    let bs = 1u64 << w.cfg.bs_bits;
    let tl = Timeline::new(&reqs, w.files[0], w.initial_file.clone(), bs, w.cfg.early_visible);
    let mut points = tl.points();
    let mut rng = Rng::new(seed);
    *extra.entry("crash_points_total").or_insert(0) += points.len() as u64;
    if points.len() > budget.max_points {
        // keep a stratified sample: every point next to an fsync completion,
        // plus a uniform sample of the rest
        let fs: BTreeSet<u64> = tl
            .reqs
            .iter()
            .filter(|r| r.kind == crate::sim::ReqKind::Fsync)
            .filter_map(|r| r.complete_seq)
            .collect();
        let mut keep: BTreeSet<u64> = BTreeSet::new();
        for (i, p) in points.iter().enumerate() {
            if fs.contains(p) {
                keep.insert(*p);
                if i > 0 {
                    keep.insert(points[i - 1]);
                }
                if i + 1 < points.len() {
                    keep.insert(points[i + 1]);
                }
            }
        }
        let mut keep: Vec<u64> = keep.into_iter().collect();
        while keep.len() > budget.max_points / 2 {
            let i = rng.below(keep.len() as u64) as usize;
            keep.remove(i);
        }
        let mut set: BTreeSet<u64> = keep.into_iter().collect();
        while set.len() < budget.max_points {
            set.insert(*rng.pick(&points));
        }
        points = set.into_iter().collect();
    }
    // the image budget may run out: don't let that always hit the end of the
    // history (visit the points in a seeded random order)
    for i in (1..points.len()).rev() {
        let j = rng.below(i as u64 + 1) as usize;
        points.swap(i, j);
    }
    let cs = w.cfg.cs();
    let vsize = w.cfg.vsize();
    let vend = w.cfg.vend();
    let mut seen: HashSet<u64> = HashSet::new();
    let mut images = 0usize;
    let mut opens = 0usize;
    let check_data = prop == "C05" || prop == "C12";
    let spans = w.op_spans.clone();
    let syncs = w.sync_points.clone();
    'outer: for k in points {
        let cp = tl.at(k);
        let fam = crash::families(&cp, budget.torn, &mut rng);
        *extra.entry("crash_points").or_insert(0) += 1;
        *extra.entry("max_volatile").or_insert(0) =
            (*extra.get("max_volatile").unwrap_or(&0)).max(cp.vols.len() as u64);
        let sp: Option<&SyncPt> = syncs.iter().filter(|s| s.seq <= k).last();
        for (ci, c) in fam.iter().enumerate() {
            if images >= budget.max_images {
                *extra.entry("image_budget_exhausted").or_insert(0) += 1;
                break 'outer;
            }
            let img = tl.image(&cp, &c.sel);
            let h = img.content_hash();
            if !seen.insert(h) {
                continue;
            }
            images += 1;
            *extra.entry("crash_images").or_insert(0) += 1;
            // C04: the image must be safe
            let orig_img = img;
            let mut img = orig_img.clone();
            let mut wk = qspec::walk(&img);
            let mut v = qspec::Verdict::default();
            match &wk {
                Err(e) => v.fatal = Some(e.clone()),
                Ok(wk) => qspec::check_walk(&img, wk, false, &mut v),
            }
            if let Some((class, d)) = v.first_problem(true) {
                // re-judge under the literal durability rule
                let mut strict_only = false;
                if let Some(c2) = crash::with_gray_persisted(&cp, c) {
                    let img2 = tl.image(&cp, &c2.sel);
                    let v2 = qspec::check_image(&img2, false);
                    if v2.first_problem(true).is_none() {
                        strict_only = true;
                    }
                }
                if strict_only {
                    *extra.entry("strict_only_observations").or_insert(0) += 1;
                    continue;
                }
                w.viol(
                    &["C04", "C12"],
                    &format!("crash-image/{class}/{}", crash_class(&tl, &cp, &d)),
                    format!("{}\n  checker: {d}", describe_point(&tl, &cp, c)),
                );
                return;
            }
            if !v.leak.is_empty() {
                *extra.entry("crash_images_with_leak").or_insert(0) += 1;
            }
            // open a sample with the real library: systematic families first
            let want_open = opens < budget.max_opens && (ci < 2 || (check_data && ci < 6) || rng.chance(1, 12));
            if !want_open {
                continue;
            }
            opens += 1;
            *extra.entry("crash_images_opened").or_insert(0) += 1;
            let clusters: Vec<u64> = match sp {
                Some(sp) if check_data => sp.clusters.clone(),
                _ => w.interesting.iter().copied().take(24).collect(),
            };
            let r = with_dev_on(w, &orig_img, |sim, dev| {
                let mut problems: Vec<(String, String)> = vec![];
                for g in &clusters {
                    let off = g * cs;
                    if off >= vend {
                        continue;
                    }
                    let len = cs.min(vend - off) as usize;
                    match read_cluster(sim, dev, off, len) {
                        Err(e) => {
                            // a failing read is data damage, which only the
                            // durability property (C05) can object to
                            if sp.is_some() && check_data {
                                problems.push(("synced-data-unreadable".into(), e));
                            }
                            break;
                        }
                        Ok(buf) => {
                            if let (Some(sp), true) = (sp, check_data) {
                                for s in 0..len / 512 {
                                    let sec = off / 512 + s as u64;
                                    let bytes = &buf[s * 512..(s + 1) * 512];
                                    let allowed = allowed_values(sp, &spans, k, sec, cs, vsize);
                                    let ok = match content::identify(bytes) {
                                        Some(id) => allowed.contains(&id),
                                        None => false,
                                    };
                                    if !ok {
                                        problems.push((
                                            format!("synced-data-lost/{}", {
                                                let d = content::describe(bytes);
                                                if d == "zeros" {
                                                    "zeros"
                                                } else if d.starts_with("id=") {
                                                    "wrong-data"
                                                } else if d.starts_with("POISON") {
                                                    "poison"
                                                } else {
                                                    "garbage"
                                                }
                                            }),
                                            format!(
                                                "guest sector {sec} (cluster {g}) reads {} after the crash; allowed: {:x?} (synced at event {})",
                                                content::describe(bytes),
                                                allowed,
                                                sp.seq
                                            ),
                                        ));
                                        return problems;
                                    }
                                }
                            }
                        }
                    }
                }
                problems
            });
            match r {
                Err(e) => {
                    w.viol(
                        &["C04", "C05", "C12"],
                        "crash-image/library-cannot-open",
                        format!("{}\n  {e}", describe_point(&tl, &cp, c)),
                    );
                    return;
                }
                Ok(problems) => {
                    let mut problems = problems;
                    if let Some((sig, d)) = problems.into_iter().next() {
                        let props: &[&'static str] = if sig.starts_with("synced") {
                            &["C05", "C12"]
                        } else {
                            &["C04", "C05", "C12"]
                        };
                        w.viol(
                            props,
                            &format!("crash-image/{sig}"),
                            format!("{}\n  {d}", describe_point(&tl, &cp, c)),
                        );
                        return;
                    }
                }
            }
        }
    }
    let _ = json!(null);
}

/// coarse class for the signature: which API operation the crash point is in
fn crash_class(tl: &Timeline, cp: &crash::CrashPoint, detail: &str) -> String {
    let what = if detail.contains("L1[") {
        "l1"
    } else if detail.contains("reftable[") {
        "reftable"
    } else if detail.contains("guest cluster") || detail.contains("L2[") {
        "l2"
    } else if detail.contains("refcount") {
        "refcount"
    } else {
        "other"
    };
    let _ = (tl, cp);
    what.to_string()
}

pub fn crash_gen(p: &mut Profile) {
    let g = &mut p.gen;
    // crash images are judged by the thousand: small clusters only
    g.cb_weights = [45, 20, 10, 25, 0, 0, 0, 0];
    g.tiny_cache_pct = 70;
    g.allow_default_params = true;
    g.max_write_clusters = 4;
    g.hot_clusters = 5;
    g.min_ops = 4;
    g.max_ops = 18;
    let o = &mut p.oracles;
    o.readback = false;
    o.sweep_every = 0;
    o.flush_check = false;
    o.flush_reopen = false;
    o.snapshot = false;
    o.need_flush = false;
    o.mapping = false;
    o.final_reopen = false;
    o.ownership = false;
    match p.id {
        "C04" => {
            g.template_pct = 50;
            g.l1_short_pct = 8;
            // a backend fault before the crash (see C05)
            p.oracles.seq_fault_pct = 8;
            g.par_pct = 35;
            g.max_clients = 4;
            g.racy_discard_pct = 30;
            g.op_weights = [45, 4, 16, 16, 5, 3, 1, 0, 0];
        }
        "C05" => {
            g.template_pct = 40;
            // a backend fault before the crash: what a failed operation
            // leaves behind must not damage synced data either
            p.oracles.seq_fault_pct = 12;
            g.par_pct = 25;
            g.max_clients = 3;
            g.racy_discard_pct = 30;
            g.op_weights = [45, 4, 14, 10, 4, 0, 1, 0, 0];
            g.sync_points = 2;
        }
        _ => {
            // C12: growth
            g.growth_geometry = true;
            g.par_pct = 10;
            g.racy_discard_pct = 30;
            g.l1_short_pct = 20;
            g.op_weights = [70, 3, 6, 8, 2, 2, 0, 0, 0];
            g.max_write_clusters = 40;
            g.min_ops = 6;
            g.max_ops = 24;
            g.sync_points = 1;
            g.allow_backing = false;
            // C01..C03 across the growth, in the run itself
            let o = &mut p.oracles;
            o.readback = true;
            o.flush_check = true;
            o.final_reopen = true;
            o.sweep_every = 12;
        }
    }
}

#[allow(unused)]
fn unused(_: &Cfg, _: &Op, _: &Step) {}
