//! Guest data content.  Every 512-byte sector ever written (or placed into an
//! initial image) is identified by a 55-bit id; its bytes are a pure function
//! of the id.  id 0 is the all-zero sector.  Sectors are built so that, read as
//! big-endian u64 table entries, every word has reserved bits 56..61 set: a
//! stale data cluster mistaken for an L2 table / refcount table can never look
//! like valid metadata.
use crate::chooser::splitmix64;

pub const SECTOR: usize = 512;
pub const POISON: u8 = 0xA5;
/// ids with this bit produce highly compressible sectors (all words equal)
pub const COMPRESSIBLE: u64 = 1 << 54;
pub const ID_MASK: u64 = (1 << 55) - 1;

pub fn sector_bytes(id: u64) -> [u8; SECTOR] {
    let mut out = [0u8; SECTOR];
    if id == 0 {
        return out;
    }
    let id = id & ID_MASK;
    let w0 = (0x3fu64 << 56) | id;
    out[0..8].copy_from_slice(&w0.to_be_bytes());
    for k in 1..SECTOR / 8 {
        let w = if id & COMPRESSIBLE != 0 {
            w0
        } else {
            let mut x = id.wrapping_mul(64).wrapping_add(k as u64);
            (0x3fu64 << 56) | (splitmix64(&mut x) >> 8)
        };
        out[k * 8..k * 8 + 8].copy_from_slice(&w.to_be_bytes());
    }
    out
}

pub fn fill(ids: impl Iterator<Item = u64>, out: &mut [u8]) {
    for (i, id) in ids.enumerate() {
        out[i * SECTOR..(i + 1) * SECTOR].copy_from_slice(&sector_bytes(id));
    }
}

/// What does this sector look like?  Some(id) if it is exactly the sector of
/// an id (0 for zeros)
pub fn identify(sec: &[u8]) -> Option<u64> {
    debug_assert_eq!(sec.len(), SECTOR);
    if sec.iter().all(|b| *b == 0) {
        return Some(0);
    }
    if sec[0] != 0x3f {
        return None;
    }
    let w0 = u64::from_be_bytes(sec[0..8].try_into().unwrap());
    let id = w0 & ((1 << 56) - 1);
    if id > ID_MASK || id == 0 {
        return None;
    }
    if sector_bytes(id)[..] == *sec {
        Some(id)
    } else {
        None
    }
}

pub fn describe(sec: &[u8]) -> String {
    if sec.iter().all(|b| *b == POISON) {
        return "POISON(untouched buffer)".into();
    }
    match identify(sec) {
        Some(0) => "zeros".into(),
        Some(id) => format!("id={:#x}", id),
        None => {
            let pois = sec.iter().filter(|b| **b == POISON).count();
            format!(
                "garbage[{:02x}{:02x}{:02x}{:02x}.. poison_bytes={}]",
                sec[0], sec[1], sec[2], sec[3], pois
            )
        }
    }
}
