//! Crash-state generator: derives, from the recorded request log of the image
//! file, the file states a host stop can leave behind.
//!
//! Crash model (DESIGN §4): at crash point k (a global event sequence number)
//! a modifying request is *durable* iff it completed before the submission of
//! an fsync that completed (ok) at or before k; every other modifying request
//! submitted at or before k is *volatile* and each of its blocks (block = the
//! device's block size) is independently persisted or lost.  The property's
//! literal wording ("issued since the last completed fsync") makes requests
//! that were still in flight while an fsync ran durable as well; a violation
//! that only exists under the stricter rule is re-judged under the literal one
//! (see `gray`).
use crate::chooser::Rng;
use crate::sim::{PageFile, ReqKind, ReqRec};

#[derive(Clone, Debug)]
pub struct Vol {
    /// index into the request list
    pub req: usize,
    pub nblocks: usize,
    /// durable under the literal reading of the property
    pub gray: bool,
}

pub struct CrashPoint {
    pub seq: u64,
    pub durable: PageFile,
    pub vols: Vec<Vol>,
}

pub struct Timeline<'a> {
    pub reqs: Vec<&'a ReqRec>,
    pub bs: u64,
    base: PageFile,
    /// the run applied writes to the visible file at submission (knob
    /// early_visible): the order in which overlapping writes take effect is
    /// then the submission order, and crash images must use the same order
    pub early: bool,
}

fn nblocks(r: &ReqRec, bs: u64) -> usize {
    if r.len == 0 {
        return 0;
    }
    let a = r.off / bs;
    let b = (r.off + r.len as u64 - 1) / bs;
    (b - a + 1) as usize
}

impl<'a> Timeline<'a> {
    pub fn new(all: &'a [ReqRec], file: usize, base: PageFile, bs: u64, early: bool) -> Self {
        let reqs: Vec<&ReqRec> = all.iter().filter(|r| r.file == file).collect();
        Timeline {
            reqs,
            bs,
            base,
            early,
        }
    }

    fn effect_order(&self, r: &ReqRec) -> u64 {
        if self.early && r.kind == ReqKind::Write && !r.inline {
            r.submit_seq
        } else {
            r.complete_seq.unwrap_or(u64::MAX)
        }
    }

    /// sequence numbers worth crashing at: after every submission of a
    /// modifying request and after every fsync completion (between those the
    /// durable / volatile sets do not change)
    pub fn points(&self) -> Vec<u64> {
        let mut v = vec![];
        for r in &self.reqs {
            if r.kind.modifies() {
                v.push(r.submit_seq);
                if let Some(c) = r.complete_seq {
                    v.push(c);
                }
            } else if r.kind == ReqKind::Fsync {
                if let Some(c) = r.complete_seq {
                    v.push(c);
                }
            }
        }
        v.sort();
        v.dedup();
        v
    }

    pub fn at(&self, k: u64) -> CrashPoint {
        // fsyncs completed at or before k
        let fs: Vec<(u64, u64)> = self
            .reqs
            .iter()
            .filter(|r| r.kind == ReqKind::Fsync && r.ok == Some(true))
            .filter_map(|r| r.complete_seq.filter(|c| *c <= k).map(|c| (r.submit_seq, c)))
            .collect();
        let last_strict = fs.iter().map(|(s, _)| *s).max().unwrap_or(0);
        let last_literal = fs.iter().map(|(_, c)| *c).max().unwrap_or(0);
        let mut durable: Vec<&ReqRec> = vec![];
        let mut vols: Vec<(&ReqRec, usize, bool)> = vec![];
        for (i, r) in self.reqs.iter().enumerate() {
            if !r.kind.modifies() || r.submit_seq > k || r.ok == Some(false) {
                continue;
            }
            let completed = r.complete_seq.filter(|c| *c <= k);
            let is_durable = matches!(completed, Some(c) if c < last_strict);
            if is_durable {
                durable.push(r);
            } else {
                let gray = r.submit_seq < last_literal;
                vols.push((r, i, gray));
            }
        }
        durable.sort_by_key(|r| self.effect_order(r));
        let mut img = self.base.clone();
        for r in durable {
            apply_whole(&mut img, r);
        }
        // volatile order: completed ones by completion, then in-flight by submission
        vols.sort_by_key(|(r, _, _)| {
            if self.early && r.kind == ReqKind::Write && !r.inline {
                return (0u8, r.submit_seq);
            }
            match r.complete_seq.filter(|c| *c <= k) {
                Some(c) => (0u8, c),
                None => (1u8, r.submit_seq),
            }
        });
        CrashPoint {
            seq: k,
            durable: img,
            vols: vols
                .into_iter()
                .map(|(r, i, gray)| Vol {
                    req: i,
                    nblocks: nblocks(r, self.bs),
                    gray,
                })
                .collect(),
        }
    }

    /// build the image in which exactly the selected blocks of the volatile
    /// requests persisted; `sel[i]` = bit mask per block of volatile request i
    pub fn image(&self, cp: &CrashPoint, sel: &[Vec<bool>]) -> PageFile {
        let mut img = cp.durable.clone();
        for (v, s) in cp.vols.iter().zip(sel) {
            let r = self.reqs[v.req];
            apply_blocks(&mut img, r, self.bs, s);
        }
        img
    }
}

fn apply_whole(img: &mut PageFile, r: &ReqRec) {
    match r.kind {
        ReqKind::Write => img.write(r.off, r.data.as_ref().unwrap()),
        ReqKind::Punch => img.punch(r.off, r.len as u64),
        _ => {}
    }
}

fn apply_blocks(img: &mut PageFile, r: &ReqRec, bs: u64, sel: &[bool]) {
    if r.len == 0 {
        return;
    }
    let first = r.off / bs;
    for (bi, on) in sel.iter().enumerate() {
        if !*on {
            continue;
        }
        let bstart = ((first + bi as u64) * bs).max(r.off);
        let bend = ((first + bi as u64 + 1) * bs).min(r.off + r.len as u64);
        if bend <= bstart {
            continue;
        }
        match r.kind {
            ReqKind::Write => {
                let d = r.data.as_ref().unwrap();
                let o = (bstart - r.off) as usize;
                img.write(bstart, &d[o..o + (bend - bstart) as usize]);
            }
            ReqKind::Punch => img.punch(bstart, bend - bstart),
            _ => {}
        }
    }
}

#[derive(Clone, Debug)]
pub struct Choice {
    pub name: String,
    pub sel: Vec<Vec<bool>>,
}

/// the systematic families plus `torn` random block-level subsets
pub fn families(cp: &CrashPoint, torn: usize, rng: &mut Rng) -> Vec<Choice> {
    let n = cp.vols.len();
    let all = |on: bool| -> Vec<Vec<bool>> { cp.vols.iter().map(|v| vec![on; v.nblocks]).collect() };
    let mut out = vec![Choice {
        name: "none".into(),
        sel: all(false),
    }];
    if n == 0 {
        return out;
    }
    out.push(Choice {
        name: "all".into(),
        sel: all(true),
    });
    if n > 1 {
        // with many volatile requests: the newest ones and a sample
        let idxs: Vec<usize> = if n <= 16 {
            (0..n).collect()
        } else {
            let mut v: Vec<usize> = (n - 8..n).collect();
            while v.len() < 16 {
                let i = rng.below(n as u64 - 8) as usize;
                if !v.contains(&i) {
                    v.push(i);
                }
            }
            v
        };
        for i in idxs {
            let mut s = all(false);
            s[i] = vec![true; cp.vols[i].nblocks];
            out.push(Choice {
                name: format!("only#{i}"),
                sel: s,
            });
            let mut s = all(true);
            s[i] = vec![false; cp.vols[i].nblocks];
            out.push(Choice {
                name: format!("all-but#{i}"),
                sel: s,
            });
        }
    }
    for t in 0..torn {
        // per request: lost / persisted / torn at block level
        let mut s = vec![];
        let mut interesting = false;
        for v in &cp.vols {
            let mode = rng.below(4);
            let blocks: Vec<bool> = match mode {
                0 => vec![false; v.nblocks],
                1 => vec![true; v.nblocks],
                _ => {
                    if v.nblocks > 1 {
                        interesting = true;
                    }
                    (0..v.nblocks).map(|_| rng.below(2) == 0).collect()
                }
            };
            s.push(blocks);
        }
        let _ = interesting;
        out.push(Choice {
            name: format!("torn#{t}"),
            sel: s,
        });
    }
    out
}

/// the same choice with every gray (literal-rule durable) request fully persisted
pub fn with_gray_persisted(cp: &CrashPoint, c: &Choice) -> Option<Choice> {
    if !cp.vols.iter().any(|v| v.gray) {
        return None;
    }
    let mut s = c.sel.clone();
    let mut changed = false;
    for (i, v) in cp.vols.iter().enumerate() {
        if v.gray && s[i].iter().any(|b| !*b) {
            s[i] = vec![true; v.nblocks];
            changed = true;
        }
    }
    if changed {
        Some(Choice {
            name: format!("{}+literal", c.name),
            sel: s,
        })
    } else {
        None
    }
}
