//! C14: malformed or unsupported images.  Fault kind `corrupt_bytes`: stored
//! bytes are altered before the image is opened.  (a) arbitrary byte strings
//! as header buffers for Qcow2Header::from_buf; (b) structured mutations of
//! valid builder images (header fields, extension lengths, L1/L2/reftable
//! entries, truncation), then open + a fixed battery of operations.  Oracle:
//! every call returns Ok or Err - no unwind, no livelock (step budget), no
//! hang (watchdog), no allocation out of proportion (counting allocator) - and
//! the unsupported-feature encodings named by the property are refused at
//! open.
use crate::chooser::{mix, Chooser, Rng};
use crate::content::POISON;
use crate::props::{hash_str, panic_sig, take_panic, Override, Profile, RunOut};
use crate::qspec;
use crate::sim::{PageFile, Sim};
use crate::workload::{gen_cfg, Cfg};
use crate::world::{build_layer, layer_path, setup_dev, Viol, STEP_BUDGET};
use qcow2_rs::dev::Qcow2DevParams;
use qcow2_rs::helpers::Qcow2IoBuf;
use qcow2_rs::meta::Qcow2Header;
use serde_json::json;
use std::path::Path;
use std::sync::atomic::Ordering;

pub fn mal_gen(p: &mut Profile) {
    let g = &mut p.gen;
    g.force_builder = true;
    g.cb_weights = [30, 10, 8, 20, 10, 14, 6, 2];
    g.allow_default_params = true;
    g.l1_short_pct = 0;
    g.allow_backing = true;
}

fn push(out: &mut RunOut, sig: &str, detail: String) {
    out.viols.push(Viol {
        props: vec!["C14"],
        sig: sig.to_string(),
        detail,
        step: 0,
        nonfatal: false,
    });
}

fn put32(b: &mut [u8], o: usize, v: u32) {
    if o.saturating_add(4) <= b.len() {
        b[o..o + 4].copy_from_slice(&v.to_be_bytes());
    }
}
fn put64(b: &mut [u8], o: usize, v: u64) {
    if o.saturating_add(8) <= b.len() {
        b[o..o + 8].copy_from_slice(&v.to_be_bytes());
    }
}
fn get32(b: &[u8], o: usize) -> u32 {
    if o.saturating_add(4) <= b.len() {
        u32::from_be_bytes(b[o..o + 4].try_into().unwrap())
    } else {
        0
    }
}
fn get64(b: &[u8], o: usize) -> u64 {
    if o.saturating_add(8) <= b.len() {
        u64::from_be_bytes(b[o..o + 8].try_into().unwrap())
    } else {
        0
    }
}

/// (description, must be refused at open)
fn mutate(img: &mut Vec<u8>, rng: &mut Rng, cs: u64) -> (String, bool) {
    let flen = img.len() as u64;
    let interesting64 = |rng: &mut Rng| -> u64 {
        match rng.below(12) {
            0 => 0,
            1 => 1,
            2 => 511,
            3 => cs - 1,
            4 => cs + 512,
            5 => flen,
            6 => flen + cs * rng.range(1, 1000),
            7 => u64::MAX,
            8 => 1 << 63,
            9 => (1 << 56) - cs,
            10 => u64::MAX - cs + 1,
            _ => rng.next(),
        }
    };
    let interesting32 = |rng: &mut Rng| -> u32 {
        match rng.below(10) {
            0 => 0,
            1 => 1,
            2 => u32::MAX,
            3 => 1 << 31,
            4 => 0xffff,
            5 => 0x1_0000,
            6 => (flen / cs) as u32 + 1,
            7 => 1 << 24,
            _ => rng.next() as u32,
        }
    };
    match rng.below(30) {
        0 => {
            let v = interesting32(rng);
            put32(img, 0, v);
            (format!("magic={v:#x}"), false)
        }
        1 => {
            let v = *rng.pick(&[0u32, 1, 4, 5, 0xffff_ffff, 0x0300_0000]);
            put32(img, 4, v);
            (format!("version={v}"), false)
        }
        2 => {
            let v = interesting64(rng);
            put64(img, 8, v);
            (format!("backing_file_offset={v:#x}"), false)
        }
        3 => {
            let v = interesting32(rng);
            put32(img, 16, v);
            if get64(img, 8) == 0 {
                put64(img, 8, *rng.pick(&[104u64, 200, cs - 1, cs - 8]));
            }
            (format!("backing_file_size={v}"), false)
        }
        4 => {
            let v = *rng.pick(&[0u32, 1, 8, 22, 23, 30, 31, 32, 33, 63, 64, 255, 0xffff_ffff]);
            put32(img, 20, v);
            (format!("cluster_bits={v}"), true)
        }
        5 => {
            // another (valid) cluster size than the one the image was built with
            let v = rng.range(9, 21) as u32;
            put32(img, 20, v);
            (format!("cluster_bits={v} (valid value, wrong for this image)"), false)
        }
        6 => {
            let v = interesting64(rng);
            put64(img, 24, v);
            (format!("size={v:#x}"), false)
        }
        7 => {
            let v = *rng.pick(&[1u32, 2, 3, 0xffff_ffff]);
            put32(img, 32, v);
            (format!("crypt_method={v}"), true)
        }
        8 => {
            let v = interesting32(rng);
            put32(img, 36, v);
            (format!("l1_size={v}"), false)
        }
        9 => {
            let v = interesting64(rng);
            put64(img, 40, v);
            (format!("l1_table_offset={v:#x}"), false)
        }
        10 => {
            let v = interesting64(rng);
            put64(img, 48, v);
            (format!("refcount_table_offset={v:#x}"), false)
        }
        11 => {
            let v = interesting32(rng);
            put32(img, 56, v);
            (format!("refcount_table_clusters={v}"), false)
        }
        12 => {
            let v = interesting32(rng);
            put32(img, 60, v);
            put64(img, 64, interesting64(rng));
            (format!("nb_snapshots={v}"), false)
        }
        13 => {
            // unknown / unsupported incompatible feature bits (version 3 only)
            let bit = *rng.pick(&[1u32, 2, 3, 4, 5, 17, 63]);
            if get32(img, 4) >= 3 {
                put64(img, 72, 1u64 << bit);
                if bit == 3 && img.len() > 104 {
                    img[104] = 1;
                }
                (format!("incompatible_features bit {bit}"), true)
            } else {
                ("no-op (version 2)".into(), false)
            }
        }
        14 => {
            put64(img, 80, rng.next());
            put64(img, 88, rng.next());
            ("compatible/autoclear features random".into(), false)
        }
        15 => {
            let v = *rng.pick(&[7u32, 8, 16, 63, 64, 255, 0xffff_ffff]);
            if get32(img, 4) >= 3 {
                put32(img, 96, v);
                (format!("refcount_order={v}"), true)
            } else {
                ("no-op (version 2)".into(), false)
            }
        }
        16 => {
            // a valid but different refcount width
            let v = rng.range(0, 6) as u32;
            put32(img, 96, v);
            (format!("refcount_order={v} (valid value, wrong for this image)"), false)
        }
        17 => {
            let v = *rng.pick(&[0u32, 4, 8, 71, 72, 100, 103, 105, 111, 4096, 0xffff_fff8, 0xffff_ffff]);
            put32(img, 100, v);
            (format!("header_length={v}"), false)
        }
        18 => {
            // extension header with an odd / huge length
            let hl = get32(img, 100) as usize;
            let at = if (104..4000).contains(&hl) { hl } else { 112 };
            let ty = *rng.pick(&[0x6803_f857u32, 0xe279_2aca, 0x1234_5678, 0x2385_2875]);
            let len = *rng.pick(&[1u32, 2, 47, 49, 97, 4000, 0xffff, 0x7fff_ffff, 0xffff_ffff]);
            put32(img, at, ty);
            put32(img, at + 4, len);
            (format!("extension type={ty:#x} length={len} at {at}"), false)
        }
        19 | 20 => {
            // an L1 entry pointing anywhere
            let l1 = get64(img, 40) as usize;
            let n = get32(img, 36) as usize;
            let i = rng.below(n.max(1) as u64) as usize;
            let v = match rng.below(5) {
                0 => interesting64(rng),
                1 => (1u64 << 63) | (rng.below(flen / cs + 4) * cs),
                2 => (1u64 << 63) | (rng.below(flen / cs + 1) * cs + 512),
                3 => (1u64 << 63) | get64(img, 48),
                _ => (1u64 << 63) | (1 << 60) | (rng.below(flen / cs + 1) * cs),
            };
            put64(img, l1.saturating_add(i * 8), v);
            (format!("L1[{i}]={v:#x}"), false)
        }
        21 | 22 | 23 => {
            // an L2 entry pointing anywhere / odd compressed descriptor
            let l1 = get64(img, 40) as usize;
            let n = get32(img, 36) as usize;
            let mut done = None;
            for k in 0..n {
                let e = get64(img, l1.saturating_add(k * 8)) & 0x00ff_ffff_ffff_fe00;
                if e != 0 && e.saturating_add(cs) <= flen {
                    let j = rng.below(cs / 8) as usize;
                    let v = match rng.below(7) {
                        0 => interesting64(rng),
                        1 => (1u64 << 63) | (rng.below(flen / cs + 4) * cs),
                        2 => (1u64 << 63) | (rng.below(flen / cs + 1) * cs + 512),
                        3 => (1u64 << 62) | (rng.next() & ((1 << 61) - 1)),
                        4 => (1u64 << 62) | flen.saturating_sub(rng.below(64)),
                        5 => (1u64 << 63) | get64(img, 40),
                        _ => 1 | (rng.below(flen / cs + 1) * cs),
                    };
                    put64(img, e as usize + j * 8, v);
                    done = Some(format!("L2[{k}][{j}]={v:#x}"));
                    break;
                }
            }
            (done.unwrap_or_else(|| "no L2 table to mutate".into()), false)
        }
        24 | 25 => {
            let rt = get64(img, 48) as usize;
            let i = rng.below(4) as usize;
            let v = match rng.below(4) {
                0 => interesting64(rng),
                1 => rng.below(flen / cs + 4) * cs,
                2 => rng.below(flen / cs + 1) * cs + 512,
                _ => 0,
            };
            put64(img, rt.saturating_add(i * 8), v);
            (format!("reftable[{i}]={v:#x}"), false)
        }
        26 => {
            // refcounts wiped / saturated
            let rt = get64(img, 48) as usize;
            let rb = get64(img, rt) as usize;
            let fill = *rng.pick(&[0u8, 0xff]);
            if rb != 0 && rb.saturating_add(cs as usize) <= img.len() {
                for b in img[rb..rb + cs as usize].iter_mut() {
                    *b = fill;
                }
            }
            (format!("refblock 0 filled with {fill:#x}"), false)
        }
        27 => {
            let n = rng.below(flen + 1) as usize;
            img.truncate(n);
            (format!("file truncated to {n} bytes"), false)
        }
        28 => {
            // random bytes in the header cluster
            for _ in 0..rng.range(1, 16) {
                let o = rng.below(cs.min(flen).max(1)) as usize;
                if o < img.len() {
                    img[o] = rng.next() as u8;
                }
            }
            ("random bytes in the header cluster".into(), false)
        }
        _ => {
            // random bytes anywhere in the metadata
            for _ in 0..rng.range(1, 8) {
                let o = rng.below(flen.max(1)) as usize;
                if o < img.len() {
                    img[o] = rng.next() as u8;
                }
            }
            ("random bytes anywhere".into(), false)
        }
    }
}

fn battery(sim: &Sim, dev: &crate::world::Dev, vsize: u64, cs: u64, bs: u64, ro: bool) -> Result<u64, String> {
    let mut calls = 0u64;
    let vend = vsize & !(bs - 1);
    let mut offs: Vec<u64> = vec![0, cs, 2 * cs, vend / 2 / cs * cs];
    if vend >= bs {
        offs.push(vend - bs);
    }
    offs.retain(|o| *o < vend);
    offs.dedup();
    for off in &offs {
        calls += 1;
        sim.run_one(async { dev.get_mapping(*off).await.map(|_| ()) }, STEP_BUDGET)
            .map_err(|s| format!("get_mapping({off:#x}): {s:?}"))
            .map(|_| ())?;
        let len = (cs.min(vend - off).min(1 << 20) / bs * bs).max(bs) as usize;
        let mut buf = Qcow2IoBuf::<u8>::new(len);
        buf.fill(POISON);
        calls += 1;
        sim.run_one(async { dev.read_at(&mut buf, *off).await.map(|_| ()) }, STEP_BUDGET)
            .map_err(|s| format!("read_at({off:#x},{len}): {s:?}"))
            .map(|_| ())?;
    }
    // one multi-cluster read
    if vend >= 3 * cs && cs <= (1 << 18) {
        let len = (3 * cs) as usize;
        let mut buf = Qcow2IoBuf::<u8>::new(len);
        buf.fill(POISON);
        calls += 1;
        sim.run_one(async { dev.read_at(&mut buf, 0).await.map(|_| ()) }, STEP_BUDGET)
            .map_err(|s| format!("read_at(0,{len}): {s:?}"))
            .map(|_| ())?;
    }
    // check() walks every guest cluster of the virtual disk by design: only
    // meaningful for sizes it can walk
    // ... and it walks every entry of every refcount block the refcount table
    // points to, printing a line per leaked cluster: with 2-bit refcounts
    // and 512 KiB clusters one block describes two million clusters.  That is
    // proportional to the file, but takes minutes; keep to what is walked
    // in seconds.
    let rc_entries = dev
        .verif_snapshot()
        .map(|s| {
            let per_block = (cs * 8) >> dev.info.refcount_order();
            s.reftable.iter().filter(|e| **e != 0).count() as u64 * per_block
        })
        .unwrap_or(0);
    if vsize / cs <= (1 << 16) && rc_entries <= (1 << 20) {
        calls += 1;
        sim.run_one(async { dev.check().await }, STEP_BUDGET * 5)
            .map_err(|s| format!("check(): {s:?}"))
            .map(|_| ())?;
    }
    if !ro {
        for off in offs.iter().take(3) {
            // (never hand out uninitialised bytes: what they are depends on
            // what the process did before)
            let mut buf = Qcow2IoBuf::<u8>::new(bs as usize);
            buf.fill(0x3c);
            calls += 1;
            sim.run_one(async { dev.write_at(&buf, *off).await }, STEP_BUDGET)
                .map_err(|s| format!("write_at({off:#x}): {s:?}"))
                .map(|_| ())?;
        }
        calls += 1;
        sim.run_one(async { dev.discard(0, 2 * cs).await }, STEP_BUDGET)
            .map_err(|s| format!("discard: {s:?}"))
            .map(|_| ())?;
        calls += 1;
        sim.run_one(async { dev.flush_meta().await }, STEP_BUDGET)
            .map_err(|s| format!("flush_meta: {s:?}"))
            .map(|_| ())?;
    }
    Ok(calls)
}

const MEM_CONST: usize = 96 << 20;

pub fn run_mal(p: &Profile, seed: u64, run: u64, ov: &Override, want_case: bool) -> RunOut {
    let mut out = RunOut {
        run,
        ..Default::default()
    };
    let s = mix(mix(seed, hash_str(p.id)), run);
    let mut rng = Rng::new(s);
    let kind = match ov.extra.as_ref().and_then(|e| e.get("kind")).and_then(|k| k.as_str()) {
        Some("header-bytes") => "header-bytes",
        Some("mutated-image") => "mutated-image",
        _ => {
            if run % 4 == 3 {
                "header-bytes"
            } else {
                "mutated-image"
            }
        }
    };
    out.extra = json!({"kind": kind});
    crate::MEM_PEAK.store(crate::MEM_CUR.load(Ordering::Relaxed), Ordering::Relaxed);
    let base_mem = crate::MEM_CUR.load(Ordering::Relaxed);
    let mut cfg_used: Option<Cfg> = None;
    let mut file_len = 0usize;
    let mut desc = String::new();
    let mut header_hex: Option<String> = None;
    let mut top_hex: Option<(String, bool, String)> = None;
    let mut ro_used = false;
    let r = std::panic::catch_unwind(std::panic::AssertUnwindSafe(|| {
        let mut o2 = RunOut::default();
        if kind == "header-bytes" {
            // (a) any byte string as a header buffer
            let len = match rng.below(8) {
                0 => rng.below(8) as usize,
                1 => rng.range(8, 72) as usize,
                2 => rng.range(72, 120) as usize,
                3 => 4096,
                _ => rng.below(5000) as usize,
            };
            let mut buf = vec![0u8; len];
            let given: Option<Vec<u8>> = ov
                .extra
                .as_ref()
                .and_then(|e| e.get("header_hex"))
                .and_then(|h| h.as_str())
                .map(|h| {
                    (0..h.len() / 2)
                        .map(|i| u8::from_str_radix(&h[2 * i..2 * i + 2], 16).unwrap_or(0))
                        .collect()
                });
            match rng.below(4) {
                0 => {
                    for b in buf.iter_mut() {
                        *b = rng.next() as u8;
                    }
                }
                _ => {
                    // valid-looking prefix, garbage behind
                    for b in buf.iter_mut() {
                        *b = rng.next() as u8;
                    }
                    put32(&mut buf, 0, qspec::MAGIC);
                    put32(&mut buf, 4, *rng.pick(&[2u32, 3, 3, 3]));
                    put32(&mut buf, 20, rng.range(9, 21) as u32);
                    if rng.chance(2, 3) {
                        put64(&mut buf, 72, 0);
                        put64(&mut buf, 40, 0x10000);
                        put64(&mut buf, 48, 0x20000);
                        put64(&mut buf, 8, if rng.chance(1, 2) { 0 } else { rng.below(6000) });
                        put32(&mut buf, 16, rng.below(1100) as u32);
                        put32(&mut buf, 100, *rng.pick(&[72u32, 104, 112, 120]));
                    }
                }
            }
            if rng.chance(1, 4) {
                // a well-formed version-3 header with a chain of extensions,
                // cut a few bytes before / at / after the end of one of its
                // parts (the parser's bounds checks live there)
                let hl = *rng.pick(&[104usize, 112, 112, 120]);
                let mut b = vec![0u8; hl];
                put32(&mut b, 0, qspec::MAGIC);
                put32(&mut b, 4, 3);
                let cb = rng.range(9, 21) as u32;
                put32(&mut b, 20, cb);
                put64(&mut b, 24, 1 << 30);
                put32(&mut b, 36, 4);
                put64(&mut b, 40, 3 << cb);
                put64(&mut b, 48, 1 << cb);
                put32(&mut b, 56, 1);
                put32(&mut b, 96, 4);
                put32(&mut b, 100, hl as u32);
                let mut marks = vec![hl];
                for _ in 0..rng.range(1, 3) {
                    let ty = *rng.pick(&[0xE279_2ACAu32, 0x6803_f857, 0x2385_2875, 0x0537_be77, 0x1234_5678]);
                    let dl = match rng.below(4) {
                        0 => rng.below(16) as usize,
                        1 => rng.range(16, 200) as usize,
                        2 => rng.range(3800, 4200) as usize,
                        _ => rng.below(5000) as usize,
                    };
                    let mut e = vec![0u8; 8];
                    put32(&mut e, 0, ty);
                    put32(&mut e, 4, dl as u32);
                    b.extend_from_slice(&e);
                    marks.push(b.len());
                    for _ in 0..dl {
                        b.push(rng.next() as u8);
                    }
                    marks.push(b.len());
                    while b.len() % 8 != 0 {
                        b.push(0);
                    }
                    marks.push(b.len());
                }
                if rng.chance(3, 4) {
                    b.extend_from_slice(&[0u8; 8]);
                    marks.push(b.len());
                }
                let at = *rng.pick(&marks) as i64 + rng.range(0, 18) as i64 - 9;
                let cut = at.clamp(0, b.len() as i64 + 9) as usize;
                b.resize(cut.max(b.len().min(cut)), 0xa5);
                b.truncate(cut);
                buf = b;
            }
            if let Some(g) = given {
                buf = g;
            }
            let len = buf.len();
            header_hex = Some(buf.iter().map(|b| format!("{b:02x}")).collect::<String>());
            o2.geo = "header-bytes".into();
            o2.cfg_hash = hash_str(&format!("{:?}", &buf[..buf.len().min(160)])) ^ len as u64;
            file_len = len;
            desc = format!("{len}-byte header buffer {:02x?}...", &buf[..len.min(24)]);
            let _ = Qcow2Header::from_buf(&buf);
            o2.nontrivial = true;
            o2.stats.insert("header_buffers".into(), 1);
        } else {
            // (always drawn, so that the generator stream stays aligned when a
            // replay file supplies the configuration)
            let gcfg = gen_cfg(&mut rng, &p.gen);
            let cfg = ov.cfg.clone().unwrap_or(gcfg);
            cfg_used = Some(cfg.clone());
            o2.geo = cfg.geo_key();
            let n = cfg.layers.len();
            let bs = 512usize;
            let mut top = build_layer(&cfg.layers[0], 0, n, bs);
            let cs = cfg.cs();
            let nm = rng.range(1, 3);
            let mut must_refuse = false;
            let mut descs = vec![];
            let mut refuse_what = String::new();
            for _ in 0..nm {
                let (d, refuse) = mutate(&mut top, &mut rng, cs);
                if refuse && !must_refuse {
                    refuse_what = d.split(&['=', ' '][..]).next().unwrap_or("?").to_string();
                }
                must_refuse |= refuse;
                descs.push(d);
            }
            desc = descs.join("; ");
            // what must be refused is decided from the bytes as they are now
            // (a later mutation may have overwritten an earlier one)
            {
                let g32 = |o: usize| {
                    if o + 4 <= top.len() {
                        u32::from_be_bytes(top[o..o + 4].try_into().unwrap())
                    } else {
                        0
                    }
                };
                let version = g32(4);
                let cbits = g32(20);
                must_refuse = false;
                refuse_what.clear();
                let mut flag = |c: bool, n: &str| {
                    if c && !must_refuse {
                        must_refuse = true;
                        refuse_what = n.to_string();
                    }
                };
                if top.len() >= 112 && g32(0) == qspec::MAGIC && (version == 2 || version == 3) {
                    flag(!(9..=21).contains(&cbits), "cluster_bits");
                    flag(g32(32) != 0, "crypt_method");
                    if version == 3 {
                        flag(get64(&top, 72) != 0, "incompatible_features");
                        flag(g32(96) > 6, "refcount_order");
                    }
                }
            }
            // a replay file carries the mutated image itself
            if let Some(e) = ov.extra.as_ref() {
                if let Some(h) = e.get("top_hex").and_then(|h| h.as_str()) {
                    top = (0..h.len() / 2)
                        .map(|i| u8::from_str_radix(&h[2 * i..2 * i + 2], 16).unwrap_or(0))
                        .collect();
                    must_refuse = e.get("must_refuse").and_then(|b| b.as_bool()).unwrap_or(false);
                    refuse_what = e
                        .get("refuse_what")
                        .and_then(|b| b.as_str())
                        .unwrap_or("")
                        .to_string();
                    desc = e
                        .get("mutation")
                        .and_then(|b| b.as_str())
                        .unwrap_or("")
                        .to_string();
                }
            }
            if top.len() <= (2 << 20) {
                top_hex = Some((
                    top.iter().map(|b| format!("{b:02x}")).collect::<String>(),
                    must_refuse,
                    refuse_what.clone(),
                ));
            }
            o2.cfg_hash = hash_str(&desc) ^ hash_str(&serde_json::to_string(&cfg).unwrap());
            file_len = top.len();
            let sim = Sim::new(Chooser::generate(mix(s, 9)));
            sim.core.knobs.borrow_mut().inline_pct = cfg.inline_pct;
            if std::env::var("QSIM_TRACE").is_ok() {
                sim.core.trace_on.set(true);
            }
            sim.add_file(&layer_path(0), PageFile::from_bytes(&top), bs);
            for i in 1..n {
                let b = build_layer(&cfg.layers[i], i, n, bs);
                sim.add_file(&layer_path(i), PageFile::from_bytes(&b), bs);
            }
            let _g = sim.enter();
            let ro = match ov.extra.as_ref().and_then(|e| e.get("ro")).and_then(|b| b.as_bool()) {
                Some(b) => b,
                None => rng.chance(1, 4),
            };
            ro_used = ro;
            // default cache geometry: custom slice sizes are only legal relative
            // to the cluster size, which the mutation may have changed
            let params = Qcow2DevParams::new(9, None, None, ro, false);
            let path = layer_path(0);
            qcow2_rs::verif::set_hash_seed(cfg.hash_seed);
            match sim.run_one(setup_dev(Path::new(&path), &params), STEP_BUDGET) {
                Err(s) => push(&mut o2, "open-livelock", format!("[{desc}] open: {s:?}")),
                Ok(Err(_)) => {
                    o2.stats.insert("open_refused".into(), 1);
                }
                Ok(Ok(dev)) => {
                    o2.stats.insert("open_accepted".into(), 1);
                    if must_refuse {
                        let which = refuse_what.clone();
                        push(
                            &mut o2,
                            &format!("unsupported-feature-accepted/{which}"),
                            format!("[{desc}] an image using an unsupported feature was opened instead of refused"),
                        );
                    } else {
                        let vsize = dev.info.virtual_size();
                        let dcs = dev.info.cluster_size() as u64;
                        match battery(&sim, &dev, vsize, dcs, bs as u64, ro) {
                            Ok(c) => {
                                o2.stats.insert("calls_on_mutated_device".into(), c);
                            }
                            Err(e) => push(&mut o2, "livelock", format!("[{desc}] {e}")),
                        }
                    }
                }
            }
            if std::env::var("QSIM_TRACE").is_ok() {
                for l in sim.core.trace.borrow().iter() {
                    eprintln!("{l}");
                }
            }
            // how far the library wrote into the (sparse) file: the simulated
            // file keeps a page index of 8 bytes per 512 bytes of length,
            // which is the harness's memory, not the library's
            let far = sim
                .core
                .reqs
                .borrow()
                .iter()
                .filter(|r| r.kind == crate::sim::ReqKind::Write && r.ok == Some(true))
                .map(|r| r.off + r.len as u64)
                .max()
                .unwrap_or(0);
            o2.stats.insert("max_write_end".into(), far);
            o2.steps = sim.core.steps.get();
            o2.reqs = sim.core.reqs.borrow().len() as u64;
            o2.fingerprint = sim.core.fingerprint.get();
            o2.nontrivial = true;
            o2.stats.insert("mutated_images".into(), 1);
        }
        o2
    }));
    match r {
        Ok(o2) => {
            let e = out.extra.clone();
            out = o2;
            out.run = run;
            out.extra = e;
        }
        Err(_) => {
            let info = take_panic();
            push(&mut out, &panic_sig(&info), format!("[{kind}: {desc}] panic: {info}"));
        }
    }
    let peak = crate::MEM_PEAK.load(Ordering::Relaxed).saturating_sub(base_mem);
    out.stats.insert("peak_alloc_kib".into(), (peak >> 10) as u64);
    // (page index of the simulated file: up to 3 copies - growth by doubling
    // and one snapshot - of 8 bytes per 512-byte page)
    let harness_index = out.stats.get("max_write_end").copied().unwrap_or(0) as usize / 512 * 8 * 4;
    if peak > MEM_CONST + 64 * file_len + harness_index {
        push(
            &mut out,
            "allocation-out-of-proportion",
            format!("[{kind}: {desc}] peak allocation {peak} bytes for a {file_len}-byte file"),
        );
    }
    out.extra["mutation"] = json!(desc);
    out.extra["ro"] = json!(ro_used);
    if let Some(h) = header_hex {
        out.extra["header_hex"] = json!(h);
    }
    if !out.viols.is_empty() {
        if let Some((h, mr, rw)) = top_hex {
            out.extra["top_hex"] = json!(h);
            out.extra["must_refuse"] = json!(mr);
            out.extra["refuse_what"] = json!(rw);
        }
    }
    if want_case || !out.viols.is_empty() {
        out.cfg = cfg_used;
        out.steps_list = Some(vec![]);
    }
    out
}
