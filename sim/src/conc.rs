//! Concurrent batches: client tasks issue operations against one device under
//! the simulator's scheduler; the recorded history is checked for per-sector
//! linearizability (Wing & Gong search with memoisation) against a register.
use crate::content::{self, POISON, SECTOR};
use crate::model::CClass;
use crate::world::{err_class, World, STEP_BUDGET};
use crate::workload::{Op, Step};
use qcow2_rs::helpers::Qcow2IoBuf;
use std::cell::{Cell, RefCell};
use std::collections::{BTreeMap, BTreeSet, HashSet};
use std::future::Future;
use std::pin::Pin;

#[derive(Clone, Debug)]
pub enum HKind {
    Write { base: u64 },
    Read { data: Vec<u8> },
    Discard,
    /// flush_meta + fsync_range, both Ok
    Sync,
    Other,
}

#[derive(Clone, Debug)]
pub struct HOp {
    pub client: usize,
    pub idx: usize,
    pub kind: HKind,
    pub off: u64,
    pub len: u64,
    pub inv: u64,
    pub ret: u64,
    pub ok: bool,
    pub err: String,
    pub desc: String,
    pub seq0: u64,
    pub seq1: u64,
}

/// effect of one operation on one sector
#[derive(Clone, Copy, Debug, PartialEq)]
enum SubOp {
    Write(u64),
    /// definitely sets zero
    Zero,
    /// sets zero or does nothing
    MaybeZero,
    Read(u64),
    /// failed write: may or may not have taken effect
    MaybeWrite(u64),
}

#[derive(Clone, Copy, Debug)]
struct Sub {
    op: SubOp,
    inv: u64,
    ret: u64,
}

/// Is there a linearization of `subs` starting from `init`?
fn linearizable(init: u64, subs: &[Sub]) -> bool {
    let n = subs.len();
    if n > 24 {
        return true; // bounded by construction; never reached with the generators used
    }
    let mut memo: HashSet<(u32, u64)> = HashSet::new();
    fn rec(done: u32, val: u64, subs: &[Sub], memo: &mut HashSet<(u32, u64)>) -> bool {
        let n = subs.len();
        if done == (1u32 << n) - 1 {
            return true;
        }
        if !memo.insert((done, val)) {
            return false;
        }
        // minimal return time among pending ops: an op can be linearized next
        // only if it was invoked before every pending op returned
        let mut min_ret = u64::MAX;
        for i in 0..n {
            if done & (1 << i) == 0 {
                min_ret = min_ret.min(subs[i].ret);
            }
        }
        for i in 0..n {
            if done & (1 << i) != 0 || subs[i].inv > min_ret {
                continue;
            }
            let nd = done | (1 << i);
            let ok = match subs[i].op {
                SubOp::Write(v) => rec(nd, v, subs, memo),
                SubOp::Zero => rec(nd, 0, subs, memo),
                SubOp::MaybeZero => rec(nd, 0, subs, memo) || rec(nd, val, subs, memo),
                SubOp::MaybeWrite(v) => rec(nd, v, subs, memo) || rec(nd, val, subs, memo),
                SubOp::Read(v) => v == val && rec(nd, val, subs, memo),
            };
            if ok {
                return true;
            }
        }
        false
    }
    rec(0, init, subs, &mut memo)
}

pub fn exec_par(w: &mut World, st: &Step) -> bool {
    let Step::Par(clients) = st else {
        return true;
    };
    w.stat("par_batches");
    let tick = Cell::new(0u64);
    let hist: RefCell<Vec<HOp>> = RefCell::new(Vec::new());
    let cs = w.cfg.cs();
    let vsize = w.cfg.vsize();
    // pre-allocate ids for writes
    let mut bases: Vec<Vec<u64>> = vec![];
    for c in clients {
        let mut b = vec![];
        for op in c {
            if let Op::Write { off, len } = op {
                w.note_write(*off, *len as u64);
                b.push(w.alloc_ids(*len as usize));
            } else {
                if let Op::Discard { off, len } = op {
                    w.note_discard(*off, *len);
                }
                b.push(0);
            }
        }
        bases.push(b);
    }
    let op_base = w.op_no;
    w.op_no += clients.iter().map(|c| c.len()).sum::<usize>();
    // one failing backend request inside this batch?
    let inject = {
        let h = crate::chooser::mix(w.cfg.hash_seed, 0xfa11 + w.step_no as u64);
        w.oracles.par_fault_pct > 0 && !w.cfg.read_only && h % 100 < w.oracles.par_fault_pct as u64
    };
    if inject {
        let h = crate::chooser::mix(w.cfg.hash_seed, 0xfa12 + w.step_no as u64);
        let base = w.sim.core.fault_ordinal.get();
        let mut f = w.sim.core.faults.borrow_mut();
        f.fault_file = w.files[0];
        f.fail_ordinals = [base + (h % 48) as usize].into_iter().collect();
        drop(f);
        w.faults_active = true;
        w.par_fault_seen = true;
        w.stat("par_batches_with_fault");
    }
    let stop = {
        let dev = w.dev.as_ref().unwrap();
        let sim = w.sim.clone();
        let mut tasks: Vec<Pin<Box<dyn Future<Output = ()> + '_>>> = vec![];
        let mut opn = op_base;
        for (ci, c) in clients.iter().enumerate() {
            let hist = &hist;
            let tick = &tick;
            let bases = &bases;
            let sim = sim.clone();
            let first_op = opn;
            opn += c.len();
            tasks.push(Box::pin(async move {
                for (oi, op) in c.iter().enumerate() {
                    sim.set_op(first_op + oi + 1);
                    let inv = tick.get() + 1;
                    tick.set(inv);
                    let mut rec = HOp {
                        client: ci,
                        idx: oi,
                        kind: HKind::Other,
                        off: 0,
                        len: 0,
                        inv,
                        ret: 0,
                        ok: true,
                        err: String::new(),
                        desc: format!("{op:?}"),
                        seq0: sim.seq(),
                        seq1: 0,
                    };
                    match op {
                        Op::Write { off, len } => {
                            let base = bases[ci][oi];
                            let mut buf = Qcow2IoBuf::<u8>::new(*len as usize);
                            content::fill(
                                (0..(*len as usize / SECTOR) as u64).map(|s| base + s),
                                &mut buf,
                            );
                            let r = dev.write_at(&buf, *off).await;
                            rec.kind = HKind::Write { base };
                            rec.off = *off;
                            rec.len = *len as u64;
                            if let Err(e) = r {
                                rec.ok = false;
                                rec.err = format!("{e:?}");
                            }
                        }
                        Op::Read { off, len } => {
                            let mut buf = Qcow2IoBuf::<u8>::new(*len as usize);
                            buf.fill(POISON);
                            let r = dev.read_at(&mut buf, *off).await;
                            rec.off = *off;
                            rec.len = *len as u64;
                            match r {
                                Ok(n) if n == *len as usize => {
                                    rec.kind = HKind::Read { data: buf.to_vec() }
                                }
                                Ok(n) => {
                                    rec.ok = false;
                                    rec.err = format!("short read {n} of {len}");
                                }
                                Err(e) => {
                                    rec.ok = false;
                                    rec.err = format!("{e:?}");
                                }
                            }
                        }
                        Op::Discard { off, len } => {
                            let r = dev.discard(*off, *len).await;
                            rec.kind = HKind::Discard;
                            rec.off = *off;
                            rec.len = *len;
                            if let Err(e) = r {
                                rec.ok = false;
                                rec.err = format!("{e:?}");
                            }
                        }
                        Op::Flush => {
                            if let Err(e) = dev.flush_meta().await {
                                rec.ok = false;
                                rec.err = format!("{e:?}");
                            }
                        }
                        Op::SyncPoint => match dev.flush_meta().await {
                            Err(e) => {
                                rec.ok = false;
                                rec.err = format!("{e:?}");
                            }
                            Ok(()) => {
                                if dev.fsync_range(0, usize::MAX).await.is_ok() {
                                    rec.kind = HKind::Sync;
                                }
                            }
                        },
                        Op::Shrink => {
                            if let Err(e) = dev.shrink_caches().await {
                                rec.ok = false;
                                rec.err = format!("{e:?}");
                            }
                        }
                        Op::Fsync => {
                            let _ = dev.fsync_range(0, usize::MAX).await;
                        }
                        Op::GetMapping { off } => {
                            if *off < vsize {
                                if let Err(e) = dev.get_mapping(*off).await {
                                    rec.ok = false;
                                    rec.err = format!("{e:?}");
                                }
                            }
                        }
                        _ => {}
                    }
                    let ret = tick.get() + 1;
                    tick.set(ret);
                    rec.ret = ret;
                    rec.seq1 = sim.seq();
                    hist.borrow_mut().push(rec);
                }
            }));
        }
        let _g = sim.enter();
        sim.run_tasks(tasks, STEP_BUDGET)
    };
    if inject {
        w.sim.core.faults.borrow_mut().fail_ordinals.clear();
        w.faults_active = false;
    }
    let what = format!("concurrent batch (step {})", w.step_no);
    if let Err(s) = stop {
        let pend: Vec<String> = clients
            .iter()
            .enumerate()
            .map(|(i, c)| format!("client{i}:{c:?}"))
            .collect();
        match s {
            crate::sim::Stop::Deadlock(d) => w.viol(
                &["C07"],
                "deadlock",
                format!("{what}: {d}; clients: {}", pend.join(" | ")),
            ),
            crate::sim::Stop::Livelock => w.viol(
                &["C07"],
                "livelock",
                format!("{what}: step budget exceeded; clients: {}", pend.join(" | ")),
            ),
        }
        return false;
    }
    let hist = hist.into_inner();
    for h in &hist {
        match &h.kind {
            HKind::Write { base } => w.op_spans.push(crate::world::OpSpan {
                start_seq: h.seq0,
                end_seq: h.seq1,
                off: h.off,
                len: h.len,
                base: Some(*base),
                ok: h.ok,
                conc: true,
            }),
            HKind::Discard => w.op_spans.push(crate::world::OpSpan {
                start_seq: h.seq0,
                end_seq: h.seq1,
                off: h.off,
                len: h.len,
                base: None,
                ok: h.ok,
                conc: true,
            }),
            _ => {}
        }
    }
    // sync points inside the batch (C05): everything that had returned when
    // the syncing client called flush_meta is durable once its fsync_range
    // returned.  Only clusters whose content at that moment is determined are
    // put under obligation: no discard in the batch touches them and no two
    // writes that returned before the sync overlap each other in time.
    {
        let mut syncs: Vec<&HOp> = hist.iter().filter(|h| matches!(h.kind, HKind::Sync) && h.ok).collect();
        syncs.sort_by_key(|h| h.seq1);
        for sy in syncs {
            let mut model = w.model.clone();
            let mut pre: Vec<&HOp> = hist
                .iter()
                .filter(|h| matches!(h.kind, HKind::Write { .. }) && h.ok && h.len > 0 && h.ret < sy.inv)
                .collect();
            pre.sort_by_key(|h| h.ret);
            let mut ambiguous: BTreeSet<u64> = BTreeSet::new();
            for d in hist.iter().filter(|h| matches!(h.kind, HKind::Discard)) {
                if let Some((a, b)) = w.model.discard_bounds(d.off, d.len) {
                    if b - a > 4096 {
                        // a huge discard: give up on this sync point
                        ambiguous.insert(u64::MAX);
                    } else {
                        ambiguous.extend(a..b);
                    }
                }
            }
            if ambiguous.contains(&u64::MAX) {
                continue;
            }
            // failed writes leave their clusters undetermined
            for h in hist.iter().filter(|h| matches!(h.kind, HKind::Write { .. }) && !h.ok && h.len > 0) {
                ambiguous.extend(h.off / cs..=(h.off + h.len - 1) / cs);
            }
            for (i, a) in pre.iter().enumerate() {
                for b in pre.iter().skip(i + 1) {
                    let (a0, a1) = (a.off / cs, (a.off + a.len - 1) / cs);
                    let (b0, b1) = (b.off / cs, (b.off + b.len - 1) / cs);
                    if a0 <= b1 && b0 <= a1 && a.inv < b.ret && b.inv < a.ret {
                        ambiguous.extend(a0.max(b0)..=a1.min(b1));
                    }
                }
            }
            let mut clusters: BTreeSet<u64> = w.interesting.iter().copied().collect();
            for h in &pre {
                if let HKind::Write { base } = h.kind {
                    model.write(h.off, h.len as usize, base);
                    clusters.extend(h.off / cs..=(h.off + h.len - 1) / cs);
                }
            }
            let clusters: Vec<u64> = clusters.into_iter().filter(|g| !ambiguous.contains(g)).take(96).collect();
            w.stat("sync_points_inside_batches");
            w.sync_points.push(crate::world::SyncPt {
                alt_from: sy.seq0,
                seq: sy.seq1,
                model,
                alt: w.alt.clone(),
                clusters,
            });
        }
    }
    // Known finding KF02: a discard that overlaps in time with a write_at to
    // the same guest cluster frees the host cluster under the write; the
    // write's data then lands in a cluster that may already belong to someone
    // else.  Histories that contain such a pair get their own signature.
    let mut racy_pair = false;
    for d in hist.iter().filter(|h| matches!(h.kind, HKind::Discard)) {
        if let Some((a, b)) = w.model.discard_bounds(d.off, d.len) {
            for wr in hist.iter().filter(|h| matches!(h.kind, HKind::Write { .. })) {
                if wr.len == 0 {
                    continue;
                }
                let (wa, wb) = (wr.off / cs, (wr.off + wr.len - 1) / cs + 1);
                let overlap_space = wa < b && a < wb;
                let overlap_time = wr.inv < d.ret && d.inv < wr.ret;
                if overlap_space && overlap_time {
                    racy_pair = true;
                }
            }
        }
    }
    if racy_pair {
        w.stat("batches_with_discard_racing_write");
        // the damage (data written into a freed cluster) may surface later
        // (this race used to free the host cluster under the write: finding
        // KF02, repaired by F45; such histories are ordinary ones now)
    }
    // spurious failures
    if w.oracles.fault_free && !inject {
        for h in &hist {
            if !h.ok {
                // a discard that fails is C11's business too ("returns Ok for
                // all arguments on a writable device")
                let props: &[&'static str] = if matches!(h.kind, HKind::Discard) {
                    &["C07", "C11"]
                } else {
                    &["C07"]
                };
                w.viol(
                    props,
                    &format!("concurrent-op-failed/{}", err_class(&h.err)),
                    format!(
                        "{what}: client {} {} failed while other operations were in flight: {}",
                        h.client, h.desc, h.err
                    ),
                );
                return false;
            }
        }
    }
    let kf = if w.kf02_tainted { "/discard-racing-write-same-cluster" } else { "" };
    // Known finding KF03: the mapping of a freshly allocated cluster is
    // visible before the cluster has been zeroed / written, so a read that
    // overlaps in time with the first write to a cluster can return the stale
    // bytes of the (re-used) host cluster.  `kf03(g)` tells whether guest
    // cluster g saw such a read/first-write overlap in this batch.
    let kf03 = |w: &World, g: u64| -> bool {
        let fresh = w.model.class_of(g) != CClass::Data
            || hist.iter().any(|h| {
                matches!(h.kind, HKind::Discard)
                    && w.model
                        .discard_bounds(h.off, h.len)
                        .map(|(a, b)| g >= a && g < b)
                        .unwrap_or(false)
            });
        if !fresh {
            return false;
        }
        let on = |h: &HOp| h.len > 0 && h.off / cs <= g && (h.off + h.len - 1) / cs >= g;
        hist.iter().any(|r| {
            r.len > 0
                && on(r)
                && !matches!(r.kind, HKind::Write { .. } | HKind::Discard | HKind::Other)
                && hist.iter().any(|wr| {
                    matches!(wr.kind, HKind::Write { .. })
                        && on(wr)
                        && wr.inv < r.ret
                        && r.inv < wr.ret
                })
        })
    };
    // Known finding KF04 (same root cause as KF02, read side): a read that
    // overlaps in time with a discard of the same guest cluster may be served
    // from the host cluster after it was freed and re-used by someone else.
    let kf04 = |w: &World, g: u64| -> bool {
        hist.iter().any(|d| {
            matches!(d.kind, HKind::Discard)
                && w.model
                    .discard_bounds(d.off, d.len)
                    .map(|(a, b)| g >= a && g < b)
                    .unwrap_or(false)
                && hist.iter().any(|r| {
                    matches!(r.kind, HKind::Read { .. })
                        && r.len > 0
                        && r.off / cs <= g
                        && (r.off + r.len - 1) / cs >= g
                        && r.inv < d.ret
                        && d.inv < r.ret
                })
        })
    };
    // sectors touched by writes / discards
    let mut touched: BTreeSet<u64> = BTreeSet::new();
    let mut written_secs: BTreeSet<u64> = BTreeSet::new();
    let mut cand_clusters: BTreeSet<u64> = w.model.touched_clusters().into_iter().collect();
    for h in &hist {
        if let HKind::Write { .. } = &h.kind {
            if h.len > 0 {
                for g in (h.off / cs)..=((h.off + h.len - 1) / cs) {
                    cand_clusters.insert(g);
                }
            }
        }
    }
    for h in &hist {
        match &h.kind {
            HKind::Write { .. } => {
                for s in 0..h.len / 512 {
                    touched.insert(h.off / 512 + s);
                    written_secs.insert(h.off / 512 + s);
                }
                w_mark(w, h.off, h.len);
            }
            HKind::Discard => {
                // only clusters that can change matter: those with content in
                // the model or written in this batch
                if let Some((a, b)) = w.model.discard_bounds(h.off, h.len) {
                    for g in cand_clusters.range(a..b) {
                        for s in 0..cs / 512 {
                            let sec = g * (cs / 512) + s;
                            if sec * 512 < vsize {
                                touched.insert(sec);
                            }
                        }
                        w_mark(w, g * cs, cs);
                    }
                }
            }
            HKind::Read { .. } => w_mark(w, h.off, h.len),
            _ => {}
        }
    }
    // final values: read every touched sector now (quiescent)
    let mut final_val: BTreeMap<u64, u64> = BTreeMap::new();
    {
        let secs: Vec<u64> = touched.iter().copied().collect();
        let bs = w.cfg.bs();
        let vend = w.cfg.vend();
        let mut i = 0;
        while i < secs.len() {
            let mut j = i;
            while j + 1 < secs.len() && secs[j + 1] == secs[j] + 1 && (j - i) < 2048 {
                j += 1;
            }
            let a = secs[i] * 512 / bs * bs;
            let b = ((secs[j] + 1) * 512).div_ceil(bs) * bs;
            let b = b.min(vend);
            if b > a {
                let len = (b - a) as usize;
                let mut buf = Qcow2IoBuf::<u8>::new(len);
                buf.fill(POISON);
                let dev = w.dev.as_ref().unwrap();
                let r = w
                    .sim
                    .run_one(async { dev.read_at(&mut buf, a).await }, STEP_BUDGET);
                match r {
                    Ok(Ok(n)) if n == len => {
                        for s in 0..len / 512 {
                            let sec = a / 512 + s as u64;
                            let bytes = &buf[s * 512..(s + 1) * 512];
                            match content::identify(bytes) {
                                Some(id) => {
                                    final_val.insert(sec, id);
                                }
                                None => {
                                    w.viol(
                                        &["C06"],
                                        &format!("garbage-after-concurrent-batch{kf}"),
                                        format!(
                                            "{what}: guest sector {sec} holds {} after the batch",
                                            content::describe(bytes)
                                        ),
                                    );
                                    return false;
                                }
                            }
                        }
                    }
                    other => {
                        w.viol(
                            &["C06", "C07"],
                            "read-failed-after-batch",
                            format!("{what}: read_at({a:#x},{len}) -> {other:?}"),
                        );
                        return false;
                    }
                }
            }
            i = j + 1;
        }
    }
    let fin_tick = tick.get() + 10;
    // per-sector check
    let mut all_secs: BTreeSet<u64> = touched.clone();
    for h in &hist {
        if let HKind::Read { .. } = &h.kind {
            for s in 0..h.len / 512 {
                all_secs.insert(h.off / 512 + s);
            }
        }
    }
    let spc = cs / 512;
    for sec in all_secs {
        let init = w.model.sector_id(sec);
        let g = sec / spc;
        let class0 = w.model.class_of(g);
        let mut subs: Vec<Sub> = vec![];
        for h in &hist {
            let covers = sec * 512 >= h.off && (sec + 1) * 512 <= h.off.saturating_add(h.len);
            match &h.kind {
                HKind::Write { base } if covers => {
                    let v = base + (sec - h.off / 512);
                    subs.push(Sub {
                        op: if h.ok { SubOp::Write(v) } else { SubOp::MaybeWrite(v) },
                        inv: h.inv,
                        ret: h.ret,
                    });
                }
                HKind::Discard => {
                    if w
                        .model
                        .discard_bounds(h.off, h.len)
                        .map(|(a, b)| g >= a && g < b)
                        .unwrap_or(false)
                    {
                        subs.push(Sub {
                            op: if class0 == CClass::Data && h.ok {
                                SubOp::Zero
                            } else {
                                SubOp::MaybeZero
                            },
                            inv: h.inv,
                            ret: h.ret,
                        });
                    }
                }
                HKind::Read { data } if covers => {
                    let o = ((sec * 512) - h.off) as usize;
                    let bytes = &data[o..o + 512];
                    match content::identify(bytes) {
                        Some(id) => subs.push(Sub {
                            op: SubOp::Read(id),
                            inv: h.inv,
                            ret: h.ret,
                        }),
                        None => {
                            let kf = if kf04(w, g) {
                                "/read-racing-discard-same-cluster"
                            } else if kf03(w, g) {
                                "/read-racing-first-write-to-cluster"
                            } else {
                                kf
                            };
                            w.viol(
                                &["C06"],
                                &format!("concurrent-read-garbage{kf}"),
                                format!(
                                    "{what}: client {} {} returned {} for guest sector {sec}",
                                    h.client,
                                    h.desc,
                                    content::describe(bytes)
                                ),
                            );
                            return false;
                        }
                    }
                }
                _ => {}
            }
        }
        if let Some(fv) = final_val.get(&sec) {
            subs.push(Sub {
                op: SubOp::Read(*fv),
                inv: fin_tick,
                ret: fin_tick + 1,
            });
        }
        if subs.is_empty() {
            continue;
        }
        w.stat("lin_sectors_checked");
        if !linearizable(init, &subs) {
            let mut lines = vec![];
            for h in &hist {
                lines.push(format!(
                    "  client {} [{}..{}] {} ok={}",
                    h.client, h.inv, h.ret, h.desc, h.ok
                ));
            }
            // a read that returned a value nobody wrote to this sector
            let explained: Vec<u64> = subs
                .iter()
                .filter_map(|s| match s.op {
                    SubOp::Write(v) | SubOp::MaybeWrite(v) => Some(v),
                    _ => None,
                })
                .chain([init, 0])
                .collect();
            let alien_read = subs.iter().any(|s| match s.op {
                SubOp::Read(v) => !explained.contains(&v) && s.inv < fin_tick,
                _ => false,
            });
            let kf = if alien_read && kf04(w, g) {
                "/read-racing-discard-same-cluster"
            } else if alien_read && kf03(w, g) {
                "/read-racing-first-write-to-cluster"
            } else {
                kf
            };
            w.viol(
                &["C06"],
                &format!(
                    "not-linearizable/{}{kf}",
                    lin_class(init, &subs, final_val.get(&sec).copied())
                ),
                format!(
                    "{what}: guest sector {sec} (cluster {g}) init id={init:#x} sub-ops {:?}\nhistory:\n{}",
                    subs.iter().map(|s| format!("{:?}@[{},{}]", s.op, s.inv, s.ret)).collect::<Vec<_>>(),
                    lines.join("\n")
                ),
            );
            return false;
        }
    }
    // adopt the observed outcome into the model
    let mut clusters: BTreeSet<u64> = BTreeSet::new();
    for (sec, v) in &final_val {
        w.model.set_sector(*sec, *v);
        w.alt.remove(sec);
        clusters.insert(sec / spc);
    }
    for g in clusters {
        let wsecs: Vec<u64> = (0..spc)
            .map(|s| g * spc + s)
            .filter(|s| written_secs.contains(s))
            .collect();
        let class0 = w.model.class_of(g);
        if !wsecs.is_empty() {
            if wsecs.iter().any(|s| w.model.sector_id(*s) != 0) {
                w.model.set_class(g, CClass::Data);
            } else {
                // every written sector reads zero: a discard came last
                w.model.set_class(g, CClass::Zero);
            }
        } else if class0 == CClass::Data {
            // discarded only
            let all_zero = (0..spc).all(|s| w.model.sector_id(g * spc + s) == 0);
            if all_zero {
                w.model.set_class(g, CClass::Zero);
            }
        }
    }
    w.track_file_len();
    let reqs = w.sim.core.reqs.borrow().len();
    if !w.check_anomalies(&what, reqs) {
        return false;
    }
    w.post_op_oracles(&what)
}

fn w_mark(w: &mut World, off: u64, len: u64) {
    if len == 0 {
        return;
    }
    let cs = w.cfg.cs();
    let gcl = w.cfg.vsize().div_ceil(cs);
    let a = (off / cs).saturating_sub(1);
    let b = ((off + len - 1) / cs + 1).min(gcl - 1);
    for g in a..=b.min(a + 48) {
        w.interesting.insert(g);
    }
}

fn lin_class(init: u64, subs: &[Sub], fin: Option<u64>) -> &'static str {
    // coarse classification for the signature
    let writes: Vec<u64> = subs
        .iter()
        .filter_map(|s| match s.op {
            SubOp::Write(v) | SubOp::MaybeWrite(v) => Some(v),
            _ => None,
        })
        .collect();
    match fin {
        Some(f) if f != init && f != 0 && !writes.contains(&f) => "final-value-from-nowhere",
        Some(0) if !subs.iter().any(|s| matches!(s.op, SubOp::Zero | SubOp::MaybeZero)) && init != 0 => {
            "final-zeros-without-discard"
        }
        Some(f) if f == init && !writes.is_empty() => "lost-write",
        _ => "stale-or-reordered-read",
    }
}
