//! C20: (a) Qcow2Dev::check() against the independent checker's verdict, on
//! exact images and on images with an injected leak; (b) the CLI's own
//! convert loops raw -> qcow2 -> raw over the simulated image file, for raw
//! sizes that are not multiples of anything; (c) the CLI's formatter output
//! against the independent checker.
use crate::chooser::{mix, Chooser, Rng};
use crate::props::{gen_case, hash_str, panic_sig, take_panic, Override, Profile, RunOut};
use crate::qspec;
use crate::sim::{PageFile, Sim};
use crate::workload::Cfg;
use crate::world::{layer_path, setup_dev, Oracles, Viol, World, STEP_BUDGET};
use qcow2_rs::dev::Qcow2DevParams;
use serde_json::json;
use std::path::{Path, PathBuf};

pub fn cli_gen(p: &mut Profile) {
    let g = &mut p.gen;
    g.cb_weights = [30, 10, 10, 25, 10, 15, 0, 0];
    g.min_ops = 2;
    g.max_ops = 10;
    g.par_pct = 0;
    g.op_weights = [55, 5, 20, 10, 2, 3, 0, 0, 0];
    g.l1_short_pct = 0;
    let o = &mut p.oracles;
    *o = Oracles::default();
    o.snapshot = false;
    o.need_flush = false;
    o.flush_reopen = false;
    o.sweep_every = 0;
    o.readback = false;
    o.final_reopen = false;
}

fn push(out: &mut RunOut, sig: &str, detail: String) {
    out.viols.push(Viol {
        props: vec!["C20"],
        sig: sig.to_string(),
        detail,
        step: 0,
        nonfatal: false,
    });
}

/// open `img` (with the world's backing files) and run check()
fn lib_check(w: &World, img: &PageFile) -> Result<Result<(), String>, String> {
    let sim = Sim::new(Chooser::generate(5));
    sim.core.inline_only.set(true);
    let bs = 1usize << w.cfg.bs_bits;
    for (i, fid) in w.files.iter().enumerate() {
        let c = if i == 0 { img.clone() } else { w.sim.file_content(*fid) };
        sim.add_file(&layer_path(i), c, bs);
    }
    let _g = sim.enter();
    let params = Qcow2DevParams::new(w.cfg.bs_bits, None, None, false, false);
    let path = layer_path(0);
    let dev = match sim.run_one(setup_dev(Path::new(&path), &params), STEP_BUDGET) {
        Ok(Ok(d)) => d,
        Ok(Err(e)) => return Err(format!("open failed: {e:?}")),
        Err(s) => return Err(format!("open stuck: {s:?}")),
    };
    match sim.run_one(async { dev.check().await }, STEP_BUDGET * 10) {
        Ok(r) => Ok(r.map_err(|e| format!("{e:?}"))),
        Err(s) => Err(format!("check() stuck: {s:?}")),
    }
}

fn verdict_case(p: &Profile, seed: u64, run: u64, ov: &Override, out: &mut RunOut) -> Option<(Cfg, Vec<crate::workload::Step>)> {
    let (gcfg, gsteps, sched_seed) = gen_case(p, seed, run);
    let cfg = ov.cfg.clone().unwrap_or(gcfg);
    let steps = ov.steps.clone().unwrap_or(gsteps);
    out.geo = cfg.geo_key();
    out.cfg_hash = hash_str(&serde_json::to_string(&(&cfg, &steps)).unwrap());
    let mut w = World::new(&cfg, Chooser::generate(sched_seed), p.oracles.clone());
    w.run_steps_seq(&steps);
    if !w.failed() {
        let _ = w.do_flush();
    }
    if w.failed() {
        // not this property's business (counted as collateral)
        out.viols = w.viols.clone();
        return Some((cfg, steps));
    }
    let img = w.sim.file_content(w.files[0]);
    let mut v = qspec::check_image(&img, true);
    // KF01 leaks are real leaks: check() is expected to report them
    let kf01 = !v.leak.is_empty() && v.structural.is_empty() && v.undercount.is_empty();
    let exact = v.exact_ok();
    out.steps = w.sim.core.steps.get();
    out.reqs = w.sim.core.reqs.borrow().len() as u64;
    out.fingerprint = w.sim.core.fingerprint.get();
    out.nontrivial = true;
    if !exact && !kf01 {
        // the history itself went wrong (C03's business)
        let (c, d) = v.first_problem(false).unwrap();
        out.viols.push(Viol {
            props: vec!["C03"],
            sig: format!("flushed-image/{c}"),
            detail: d,
            step: 0,
            nonfatal: false,
        });
        return Some((cfg, steps));
    }
    let vsize_clusters = cfg.vsize().div_ceil(cfg.cs());
    if vsize_clusters > (1 << 16) {
        out.stats.insert("verdict_skipped_large".into(), 1);
        return Some((cfg, steps));
    }
    match lib_check(&w, &img) {
        Err(e) => push(out, "check-cannot-run", e),
        Ok(r) => {
            out.stats.insert("verdicts_compared".into(), 1);
            if exact && r.is_err() {
                push(
                    out,
                    "check-rejects-consistent-image",
                    format!("the independent checker finds the image exact, check() returned {r:?}"),
                );
            }
            if kf01 && r.is_ok() {
                push(
                    out,
                    "check-accepts-leaked-image",
                    format!("the image has leaked clusters ({}), check() returned Ok", v.leak[0]),
                );
            }
        }
    }
    if !out.viols.is_empty() || !exact {
        return Some((cfg, steps));
    }
    // inject a leak: a free cluster inside the covered range gets refcount 1
    let wk = qspec::walk(&img).unwrap();
    let h = &wk.hdr;
    let cs = h.cs();
    let rbe = h.rb_entries();
    let mut rng = Rng::new(mix(seed, run));
    let mut free: Vec<u64> = vec![];
    for (i, e) in wk.reftable.iter().enumerate() {
        if *e == 0 {
            continue;
        }
        for idx in 0..rbe.min(4096) {
            let cl = i as u64 * rbe + idx;
            if !wk.owners.contains_key(&cl) && qspec::stored_refcount(&img, &wk, cl) == 0 {
                free.push(cl);
            }
        }
    }
    // variant 2: a used cluster gets a refcount above its references
    let used: Vec<u64> = wk
        .owners
        .iter()
        .filter(|(_, o)| o.len() == 1 && matches!(o[0], qspec::Owner::Data(_)))
        .map(|(c, _)| *c)
        .collect();
    let maxv: u64 = if h.refcount_order >= 6 { u64::MAX } else { (1u64 << (1u64 << h.refcount_order)) - 1 };
    let variants: Vec<(&str, u64, u64)> = {
        let mut v2 = vec![];
        if !free.is_empty() {
            v2.push(("free cluster with refcount 1", *rng.pick(&free), 1u64));
        }
        if !used.is_empty() && maxv >= 2 {
            v2.push(("data cluster with refcount 2 and one reference", *rng.pick(&used), 2u64));
        }
        // a free cluster directly behind compressed data that ends on a
        // cluster boundary
        for (g, c) in &wk.guest {
            if let qspec::GClass::Compressed { off, len } = c {
                let end = off + len;
                if end % cs == 0 {
                    let cl = end / cs;
                    if free.contains(&cl) {
                        let _ = g;
                        v2.push(("behind compressed data: free cluster with refcount 1", cl, 1u64));
                        break;
                    }
                }
            }
        }
        v2
    };
    for (name, cl, val) in variants {
        let mut img2 = img.clone();
        let rb_off = wk.reftable[(cl / rbe) as usize];
        let mut block = img2.read_padded(rb_off, cs as usize);
        qspec::write_refcount(&mut block, cl % rbe, h.refcount_order, val);
        img2.write(rb_off, &block);
        v = qspec::check_image(&img2, true);
        if v.leak.is_empty() || !v.structural.is_empty() || !v.undercount.is_empty() {
            // COPIED flag exactness may object to refcount 2: that is fine,
            // the image must still be reported
            if v.leak.is_empty() {
                push(out, "harness/leak-injection-failed", format!("{name}: {:?}", v.first_problem(false)));
                continue;
            }
        }
        match lib_check(&w, &img2) {
            Err(e) => push(out, "check-cannot-run", e),
            Ok(r) => {
                *out.stats.entry("leaked_verdicts_compared".into()).or_insert(0) += 1;
                if r.is_ok() {
                    push(
                        out,
                        &format!("check-accepts-leaked-image/{}", name.split(' ').next().unwrap()),
                        format!(
                            "injected leak ({name}: host cluster {cl} at {:#x}); independent checker: {}; check() returned Ok",
                            cl * cs,
                            v.leak[0]
                        ),
                    );
                }
            }
        }
    }
    Some((cfg, steps))
}

/// scratch directory of one run; removed when dropped, also when the run
/// unwinds out of a panic of the CLI code (KF11 used to leave one behind per hit)
struct TmpDir(PathBuf);

impl std::ops::Deref for TmpDir {
    type Target = PathBuf;
    fn deref(&self) -> &PathBuf {
        &self.0
    }
}

impl Drop for TmpDir {
    fn drop(&mut self) {
        let _ = std::fs::remove_dir_all(&self.0);
    }
}

fn tmpdir(run: u64) -> TmpDir {
    let base = std::env::var("QSIM_TMP").unwrap_or_else(|_| "/tmp".into());
    let d = PathBuf::from(format!("{base}/qsim-c20-{}-{run}", std::process::id()));
    let _ = std::fs::remove_dir_all(&d);
    std::fs::create_dir_all(&d).expect("cannot create temp dir");
    TmpDir(d)
}

fn convert_case(seed: u64, run: u64, out: &mut RunOut) {
    let mut rng = Rng::new(mix(mix(seed, 0xc11), run));
    let chunk = 8u64 << 20;
    let size: u64 = match rng.below(16) {
        0 => 0,
        1 => 1,
        2 => 511,
        3 => 512,
        4 => 513,
        5 => 4095,
        6 => 4096,
        7 => 65535,
        8 => 65536,
        9 => 65537,
        10 => 65536 * rng.range(2, 6) + rng.below(65536),
        11 => chunk - 512 * rng.below(3),
        12 => chunk + 512 * rng.range(1, 4),
        13 => chunk + rng.range(1, 70000),
        14 => 512 * rng.range(1, 4000),
        _ => rng.range(1, 600_000),
    };
    out.geo = "convert".into();
    out.cfg_hash = hash_str(&format!("convert/{size}/{}", rng.next()));
    let dir = tmpdir(run);
    let raw = dir.join("in.raw");
    let raw_out = dir.join("out.raw");
    let qc = dir.join("img.qcow2");
    // content: data with sparse / zero runs
    let mut data = vec![0u8; size as usize];
    let mut pos = 0usize;
    while pos < data.len() {
        let run_len = (rng.range(1, 200_000) as usize).min(data.len() - pos);
        if rng.chance(2, 3) {
            let mut x = rng.next() | 1;
            for b in data[pos..pos + run_len].iter_mut() {
                x ^= x << 13;
                x ^= x >> 7;
                x ^= x << 17;
                *b = (x >> 32) as u8;
            }
        }
        pos += run_len;
    }
    std::fs::write(&raw, &data).unwrap();
    let what = format!("convert raw({size} bytes) -> qcow2 -> raw");
    if let Err(e) = crate::rqcow2::v_convert_to_qcow2_prep(&raw, &qc) {
        push(out, "convert-prep-failed", format!("{what}: {e:?}"));
        let _ = std::fs::remove_dir_all(&*dir);
        return;
    }
    let img = std::fs::read(&qc).unwrap();
    let v = qspec::check_image(&img, true);
    if let Some((c, d)) = v.first_problem(false) {
        push(out, &format!("convert-formatted-image/{c}"), format!("{what}: {d}"));
        let _ = std::fs::remove_dir_all(&*dir);
        return;
    }
    let sim = Sim::new(Chooser::generate(mix(seed, run)));
    sim.core.knobs.borrow_mut().inline_pct = *rng.pick(&[0u32, 100]);
    let fid = sim.add_file("/sim/L0.qcow2", PageFile::from_bytes(&img), 512);
    let _g = sim.enter();
    let params = Qcow2DevParams::new(9, None, None, false, false);
    let budget = 50_000_000u64;
    let dev = match sim.run_one(setup_dev(Path::new("/sim/L0.qcow2"), &params), STEP_BUDGET) {
        Ok(Ok(d)) => d,
        other => {
            push(out, "convert-open-failed", format!("{what}: {:?}", other.map(|r| r.map(|_| ()))));
            let _ = std::fs::remove_dir_all(&*dir);
            return;
        }
    };
    match sim.run_one(crate::rqcow2::v_convert_to_qcow2_dev(&raw, &dev), budget) {
        Ok(Ok(())) => {}
        Ok(Err(e)) => push(out, "convert-to-qcow2-failed", format!("{what}: {e:?}")),
        Err(s) => push(out, "convert-to-qcow2-does-not-terminate", format!("{what}: {s:?}")),
    }
    if out.viols.is_empty() {
        let img2 = sim.file_content(fid);
        let v = qspec::check_image(&img2, true);
        if let Some((c, d)) = v.first_problem(false) {
            push(out, &format!("converted-image/{c}"), format!("{what}: {d}"));
        }
    }
    if out.viols.is_empty() {
        match sim.run_one(crate::rqcow2::v_convert_from_qcow2_dev(&dev, &raw_out), budget) {
            Ok(Ok(())) => {}
            Ok(Err(e)) => push(out, "convert-from-qcow2-failed", format!("{what}: {e:?}")),
            Err(s) => push(out, "convert-from-qcow2-does-not-terminate", format!("{what}: {s:?}")),
        }
    }
    if out.viols.is_empty() {
        let got = std::fs::read(&raw_out).unwrap();
        let padded = (size + 65535) & !65535;
        let mut want = data.clone();
        want.resize(padded as usize, 0);
        if got != want {
            let at = got.iter().zip(&want).position(|(a, b)| a != b);
            push(
                out,
                "convert-round-trip-differs",
                format!(
                    "{what}: output has {} bytes, expected {} (input zero-padded to the cluster size); first difference at {:?}",
                    got.len(),
                    want.len(),
                    at
                ),
            );
        } else {
            out.stats.insert("convert_round_trips".into(), 1);
        }
    }
    out.steps = sim.core.steps.get();
    out.reqs = sim.core.reqs.borrow().len() as u64;
    out.fingerprint = sim.core.fingerprint.get();
    out.nontrivial = size > 0;
    out.extra = json!({"raw_size": size});
    let _ = std::fs::remove_dir_all(&*dir);
}

fn format_case(seed: u64, run: u64, out: &mut RunOut) {
    let mut rng = Rng::new(mix(mix(seed, 0xf02), run));
    // what the CLI offers: size in MiB, cluster bits, refcount order; bs 512
    let cb = rng.range(9, 21) as usize;
    let ro = rng.range(0, 6) as u8;
    let size_mb = *rng.pick(&[1u64, 2, 3, 7, 16, 64, 100, 1000, 4096]);
    let size = size_mb << 20;
    let cs = 1u64 << cb;
    let rbe = cs * 8 / (1u64 << ro);
    let l1c = (size.div_ceil((cs / 8) * cs) * 8).div_ceil(cs);
    let _ = (l1c, rbe);
    if size.div_ceil((cs / 8) * cs) * 8 > (32 << 20) {
        out.stats.insert("format_unsupported_skipped".into(), 1);
        return;
    }
    out.geo = format!("cli-format-cb{cb}-ro{ro}");
    out.cfg_hash = hash_str(&format!("{cb}/{ro}/{size}"));
    crate::props::PANIC_CTX.with(|c| {
        *c.borrow_mut() = format!("format --size {size_mb} --cluster-bits {cb} --refcount-order {ro}")
    });
    let buf = crate::rqcow2::v_format_qcow2_buf(size, cb, ro, 512);
    crate::props::PANIC_CTX.with(|c| c.borrow_mut().clear());
    let v = qspec::check_image(&buf, true);
    if let Some((c, d)) = v.first_problem(false) {
        push(
            out,
            &format!("cli-formatted-image/{c}"),
            format!("format --size {size_mb} --cluster-bits {cb} --refcount-order {ro}: {d}"),
        );
    } else {
        out.stats.insert("cli_formatted_images".into(), 1);
        // ... and the library can use it: write at both ends and in the
        // middle, flush, read back, check the file again
        if let Err(d) = use_formatted(&buf, size, cs, &mut rng) {
            push(
                out,
                &format!("cli-formatted-image-unusable/{}", d.0),
                format!("format --size {size_mb} --cluster-bits {cb} --refcount-order {ro}: {}", d.1),
            );
        } else {
            out.stats.insert("cli_formatted_images_used".into(), 1);
        }
    }
    out.nontrivial = true;
}

fn use_formatted(buf: &[u8], size: u64, cs: u64, rng: &mut Rng) -> Result<(), (String, String)> {
    let sim = Sim::new(Chooser::generate(7));
    sim.core.inline_only.set(true);
    let fid = sim.add_file(&layer_path(0), PageFile::from_bytes(buf), 512);
    let _g = sim.enter();
    let params = Qcow2DevParams::new(9, None, None, false, false);
    let path = layer_path(0);
    let dev = match sim.run_one(setup_dev(Path::new(&path), &params), STEP_BUDGET) {
        Ok(Ok(d)) => d,
        Ok(Err(e)) => return Err(("open".into(), format!("open failed: {e:?}"))),
        Err(s) => return Err(("open".into(), format!("open stuck: {s:?}"))),
    };
    let gcl = size.div_ceil(cs);
    let mut spots = vec![0u64, gcl - 1, gcl / 2, rng.below(gcl)];
    spots.sort();
    spots.dedup();
    let len = cs.min(64 << 10).min(size) as usize;
    for (i, g) in spots.iter().enumerate() {
        let mut b = qcow2_rs::helpers::Qcow2IoBuf::<u8>::new(len);
        b.fill(0x40 + i as u8);
        match sim.run_one(async { dev.write_at(&b, g * cs).await }, STEP_BUDGET) {
            Ok(Ok(())) => {}
            Ok(Err(e)) => return Err(("write".into(), format!("write_at({:#x}) failed: {e:?}", g * cs))),
            Err(s) => return Err(("write".into(), format!("write_at({:#x}) stuck: {s:?}", g * cs))),
        }
    }
    match sim.run_one(async { dev.flush_meta().await }, STEP_BUDGET) {
        Ok(Ok(())) => {}
        Ok(Err(e)) => return Err(("flush".into(), format!("flush_meta failed: {e:?}"))),
        Err(s) => return Err(("flush".into(), format!("flush_meta stuck: {s:?}"))),
    }
    for (i, g) in spots.iter().enumerate() {
        let mut b = qcow2_rs::helpers::Qcow2IoBuf::<u8>::new(len);
        match sim.run_one(async { dev.read_at(&mut b, g * cs).await }, STEP_BUDGET) {
            Ok(Ok(n)) if n == len && b.iter().all(|x| *x == 0x40 + i as u8) => {}
            r => {
                return Err((
                    "read".into(),
                    format!("read_at({:#x}) after write+flush: {:?}", g * cs, r.map(|r| r.map_err(|e| format!("{e:?}")))),
                ))
            }
        }
    }
    let img = sim.file_content(fid);
    let v = qspec::check_image(&img, true);
    if let Some((c, d)) = v.first_problem(false) {
        return Err((format!("after-use/{c}"), format!("after 4 writes and flush_meta: {d}")));
    }
    Ok(())
}

pub fn run_cli(p: &Profile, seed: u64, run: u64, ov: &Override, want_case: bool) -> RunOut {
    let mut out = RunOut {
        run,
        ..Default::default()
    };
    let kind = match ov.extra.as_ref().and_then(|e| e.get("kind")).and_then(|k| k.as_str()) {
        Some(k) => k.to_string(),
        None => match run % 4 {
            0 | 1 => "verdict".to_string(),
            2 => "convert".to_string(),
            _ => "format".to_string(),
        },
    };
    let _ = qcow2_rs::verif::take_probes();
    let mut case = None;
    let k2 = kind.clone();
    let r = std::panic::catch_unwind(std::panic::AssertUnwindSafe(|| {
        let mut o2 = RunOut {
            run,
            ..Default::default()
        };
        let c = match k2.as_str() {
            "verdict" => verdict_case(p, seed, run, ov, &mut o2),
            "convert" => {
                convert_case(seed, run, &mut o2);
                None
            }
            _ => {
                format_case(seed, run, &mut o2);
                None
            }
        };
        (o2, c)
    }));
    match r {
        Ok((o2, c)) => {
            out = o2;
            case = c;
        }
        Err(_) => {
            let info = take_panic();
            push(&mut out, &format!("{kind}/{}", panic_sig(&info)), format!("[{kind}] panic: {info}"));
        }
    }
    if out.extra.is_null() {
        out.extra = json!({});
    }
    out.extra["kind"] = json!(kind);
    if want_case || !out.viols.is_empty() {
        if let Some((c, s)) = case {
            out.cfg = Some(c);
            out.steps_list = Some(s);
        }
    }
    out
}
