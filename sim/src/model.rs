//! Flat reference disk: per 512-byte sector the id of its content (see
//! content.rs), plus the class of every guest cluster for the discard rule.
use crate::content::{self, SECTOR};
use std::collections::BTreeMap;

#[derive(Clone, Copy, Debug, PartialEq, Eq)]
pub enum CClass {
    /// no own allocation (reads zeros or backing-chain data)
    Unalloc,
    /// zero flagged (with or without preallocation)
    Zero,
    /// own uncompressed allocation
    Data,
    Compressed,
}

#[derive(Clone, Debug)]
pub struct Model {
    pub vsize: u64,
    pub cs: u64,
    secs: BTreeMap<u64, u64>,
    class: BTreeMap<u64, CClass>,
}

impl Model {
    pub fn new(vsize: u64, cs: u64) -> Model {
        Model {
            vsize,
            cs,
            secs: BTreeMap::new(),
            class: BTreeMap::new(),
        }
    }

    pub fn sector_id(&self, sec: u64) -> u64 {
        self.secs.get(&sec).copied().unwrap_or(0)
    }

    pub fn set_sector(&mut self, sec: u64, id: u64) {
        if id == 0 {
            self.secs.remove(&sec);
        } else {
            self.secs.insert(sec, id);
        }
    }

    pub fn class_of(&self, g: u64) -> CClass {
        self.class.get(&g).copied().unwrap_or(CClass::Unalloc)
    }

    pub fn set_class(&mut self, g: u64, c: CClass) {
        if c == CClass::Unalloc {
            self.class.remove(&g);
        } else {
            self.class.insert(g, c);
        }
    }

    /// set the content of a whole guest cluster from sector ids base..
    pub fn set_cluster_ids(&mut self, g: u64, base: u64) {
        let spc = self.cs / SECTOR as u64;
        for s in 0..spc {
            let sec = g * spc + s;
            if sec * (SECTOR as u64) < self.vsize {
                self.set_sector(sec, if base == 0 { 0 } else { base + s });
            }
        }
    }

    pub fn cluster_sector_ids(&self, g: u64) -> Vec<u64> {
        let spc = self.cs / SECTOR as u64;
        (0..spc).map(|s| self.sector_id(g * spc + s)).collect()
    }

    /// a completed write_at of sector ids base.. at byte offset off
    pub fn write(&mut self, off: u64, len: usize, base: u64) {
        let first = off / SECTOR as u64;
        for s in 0..(len / SECTOR) as u64 {
            self.set_sector(first + s, base + s);
        }
        if len > 0 {
            for g in (off / self.cs)..=((off + len as u64 - 1) / self.cs) {
                self.set_class(g, CClass::Data);
            }
        }
    }

    /// whole clusters inside [off, off+len) clipped to vsize
    pub fn discard_clusters(&self, off: u64, len: u64) -> Vec<u64> {
        let end = off.saturating_add(len).min(self.vsize);
        if len == 0 || off >= end {
            return vec![];
        }
        let start = off.div_ceil(self.cs);
        let stop = end / self.cs;
        (start..stop).collect()
    }

    /// (first, last+1) whole clusters inside [off, off+len) clipped to vsize
    pub fn discard_bounds(&self, off: u64, len: u64) -> Option<(u64, u64)> {
        let end = off.saturating_add(len).min(self.vsize);
        if len == 0 || off >= end {
            return None;
        }
        let start = off.div_ceil(self.cs);
        let stop = end / self.cs;
        if start < stop {
            Some((start, stop))
        } else {
            None
        }
    }

    /// the clusters in a..b that hold data of their own
    pub fn data_clusters_in(&self, a: u64, b: u64) -> Vec<u64> {
        self.class
            .range(a..b)
            .filter(|(_, c)| **c == CClass::Data)
            .map(|(g, _)| *g)
            .collect()
    }

    /// discard as C11 specifies it.  Returns the clusters that were released.
    pub fn discard(&mut self, off: u64, len: u64) -> Vec<u64> {
        let mut rel = vec![];
        let Some((a, b)) = self.discard_bounds(off, len) else {
            return rel;
        };
        let cand: Vec<u64> = self.class.range(a..b).map(|(g, _)| *g).collect();
        for g in cand {
            if self.class_of(g) == CClass::Data {
                self.set_cluster_ids(g, 0);
                // an explicit "reads as zeros" state; it has no own allocation
                // any more, so a second discard is a no-op
                self.set_class(g, CClass::Zero);
                rel.push(g);
            }
        }
        rel
    }

    pub fn expected(&self, off: u64, len: usize) -> Vec<u8> {
        let mut v = vec![0u8; len];
        let first = off / SECTOR as u64;
        for s in 0..(len / SECTOR) as u64 {
            let id = self.sector_id(first + s);
            if id != 0 {
                v[(s as usize) * SECTOR..(s as usize + 1) * SECTOR]
                    .copy_from_slice(&content::sector_bytes(id));
            }
        }
        v
    }

    /// compare a read buffer with the model; Err describes the first bad sector
    pub fn compare(&self, off: u64, buf: &[u8]) -> Result<(), String> {
        let first = off / SECTOR as u64;
        for s in 0..buf.len() / SECTOR {
            let id = self.sector_id(first + s as u64);
            let got = &buf[s * SECTOR..(s + 1) * SECTOR];
            let ok = if id == 0 {
                got.iter().all(|b| *b == 0)
            } else {
                content::sector_bytes(id)[..] == *got
            };
            if !ok {
                return Err(format!(
                    "guest sector {} (offset {:#x}, cluster {}): expected {} got {}",
                    first + s as u64,
                    (first + s as u64) * SECTOR as u64,
                    (first + s as u64) * SECTOR as u64 / self.cs,
                    if id == 0 {
                        "zeros".to_string()
                    } else {
                        format!("id={id:#x}")
                    },
                    content::describe(got)
                ));
            }
        }
        Ok(())
    }

    pub fn touched_clusters(&self) -> Vec<u64> {
        let spc = self.cs / SECTOR as u64;
        let mut v: Vec<u64> = self.secs.keys().map(|s| s / spc).collect();
        v.extend(self.class.keys().copied());
        v.sort();
        v.dedup();
        v
    }
}
