//! The CLI's own code (`/repo/src/main.rs`), compiled into the harness so that
//! its generic convert / format functions can run over the simulated image
//! file.  The wrappers below live in the same module and only forward.
#![allow(dead_code, unused_imports, clippy::all)]
// QSIM_REPO_DIR: [env] in .cargo/config.toml, "/repo" for every registered command
include!(concat!(env!("QSIM_REPO_DIR"), "/src/main.rs"));

pub async fn v_convert_to_qcow2_dev<T: Qcow2IoOps>(raw: &Path, dev: &Qcow2Dev<T>) -> Qcow2Result<()> {
    convert_to_qcow2_dev(raw, dev).await
}

pub async fn v_convert_from_qcow2_dev<T: Qcow2IoOps>(dev: &Qcow2Dev<T>, raw: &Path) -> Qcow2Result<()> {
    convert_from_qcow2_dev(dev, raw).await
}

pub fn v_convert_to_qcow2_prep(raw: &Path, qcow2: &Path) -> Qcow2Result<()> {
    convert_to_qcow2_prep(raw, qcow2)
}

pub fn v_format_qcow2_buf(size: u64, cluster_bits: usize, refcount_order: u8, bs: usize) -> Vec<u8> {
    __format_qcow2_buf(size, cluster_bits, refcount_order, bs)
}
