#![allow(dead_code)]
#![allow(clippy::too_many_arguments)]
mod backrun;
mod chooser;
mod clirun;
mod conc;
mod confrun;
mod content;
mod crash;
mod crashrun;
mod faultrun;
mod malrun;
mod model;
mod props;
mod qspec;
mod rqcow2;
mod selftest;
mod sim;
mod workload;
mod world;

use props::{Kind, Override, Profile, RunOut};
use std::alloc::{GlobalAlloc, Layout, System};
use std::sync::atomic::{AtomicUsize, Ordering};

/// counting allocator: current and peak heap use (C14 bounds the memory a
/// malformed image may make the library allocate); requests beyond 4 GiB are
/// refused like a real allocator under `ulimit -v` would
pub static MEM_CUR: AtomicUsize = AtomicUsize::new(0);
pub static MEM_PEAK: AtomicUsize = AtomicUsize::new(0);
pub static MEM_REFUSED: AtomicUsize = AtomicUsize::new(0);

struct Counting;

unsafe impl GlobalAlloc for Counting {
    unsafe fn alloc(&self, l: Layout) -> *mut u8 {
        if l.size() > (4usize << 30) {
            MEM_REFUSED.store(l.size(), Ordering::Relaxed);
            return std::ptr::null_mut();
        }
        let p = System.alloc(l);
        if !p.is_null() {
            let c = MEM_CUR.fetch_add(l.size(), Ordering::Relaxed) + l.size();
            MEM_PEAK.fetch_max(c, Ordering::Relaxed);
            // "uninitialised" memory is a fixed pattern here: code that uses
            // it (the library's Qcow2IoBuf::new, a buffer behind a short read)
            // then behaves the same in every process instead of depending on
            // what the heap held
            std::ptr::write_bytes(p, 0xa7, l.size());
        }
        p
    }
    unsafe fn dealloc(&self, p: *mut u8, l: Layout) {
        MEM_CUR.fetch_sub(l.size(), Ordering::Relaxed);
        System.dealloc(p, l)
    }
    unsafe fn alloc_zeroed(&self, l: Layout) -> *mut u8 {
        if l.size() > (4usize << 30) {
            MEM_REFUSED.store(l.size(), Ordering::Relaxed);
            return std::ptr::null_mut();
        }
        let p = System.alloc_zeroed(l);
        if !p.is_null() {
            let c = MEM_CUR.fetch_add(l.size(), Ordering::Relaxed) + l.size();
            MEM_PEAK.fetch_max(c, Ordering::Relaxed);
        }
        p
    }
    unsafe fn realloc(&self, p: *mut u8, l: Layout, new: usize) -> *mut u8 {
        if new > (4usize << 30) {
            MEM_REFUSED.store(new, Ordering::Relaxed);
            return std::ptr::null_mut();
        }
        let q = System.realloc(p, l, new);
        if !q.is_null() {
            if new > l.size() {
                std::ptr::write_bytes(q.add(l.size()), 0xa7, new - l.size());
            }
            if new >= l.size() {
                let c = MEM_CUR.fetch_add(new - l.size(), Ordering::Relaxed) + (new - l.size());
                MEM_PEAK.fetch_max(c, Ordering::Relaxed);
            } else {
                MEM_CUR.fetch_sub(l.size() - new, Ordering::Relaxed);
            }
        }
        q
    }
}

#[global_allocator]
static ALLOC: Counting = Counting;
use serde_json::{json, Value};
use std::collections::{BTreeMap, BTreeSet};
use std::io::Write;

/// CPU time consumed by this process so far, in milliseconds
fn cpu_ms() -> u64 {
    let mut ts = libc::timespec {
        tv_sec: 0,
        tv_nsec: 0,
    };
    // SAFETY: plain syscall writing into a local struct
    unsafe {
        libc::clock_gettime(libc::CLOCK_PROCESS_CPUTIME_ID, &mut ts);
    }
    ts.tv_sec as u64 * 1000 + ts.tv_nsec as u64 / 1_000_000
}

fn arg<'a>(args: &'a [String], name: &str) -> Option<&'a str> {
    args.iter()
        .position(|a| a == name)
        .and_then(|i| args.get(i + 1))
        .map(|s| s.as_str())
}

fn argu(args: &[String], name: &str, def: u64) -> u64 {
    arg(args, name)
        .map(|s| s.parse::<u64>().unwrap_or_else(|_| panic!("bad {name}")))
        .unwrap_or(def)
}

pub fn run_case(p: &Profile, seed: u64, run: u64, ov: &Override, want_case: bool) -> RunOut {
    crate::props::PANIC_CTX.with(|c| c.borrow_mut().clear());
    crate::props::CURRENT_PROP.with(|c| c.set(p.id));
    match p.kind {
        Kind::Engine => props::run_engine(p, seed, run, ov, want_case),
        Kind::Crash => crashrun::run_crash(p, seed, run, ov, want_case),
        Kind::Fault => faultrun::run_fault(p, seed, run, ov, want_case),
        Kind::Conformance => confrun::run_conf(p, seed, run, ov, want_case),
        Kind::Malformed => malrun::run_mal(p, seed, run, ov, want_case),
        Kind::Backends => backrun::run_back(p, seed, run, ov, want_case),
        Kind::Cli => clirun::run_cli(p, seed, run, ov, want_case),
        _ => {
            let mut o = RunOut::default();
            o.run = run;
            o.extra = json!({"error": "profile kind not implemented"});
            o
        }
    }
}

fn cmd_run(args: &[String]) -> i32 {
    let prop = arg(args, "--prop").expect("--prop");
    let p = props::profile(prop).expect("unknown property");
    let seed = argu(args, "--seed", 1);
    let start = argu(args, "--start", 0);
    let count = argu(args, "--count", 100);
    let stride = argu(args, "--stride", 1);
    let offset = argu(args, "--offset", 0);
    let samples = argu(args, "--samples", 2);
    let max_viol = argu(args, "--max-viol", 50);
    let deadline_s = argu(args, "--deadline", 0);
    let emit_fp = args.iter().any(|a| a == "--emit-fp");
    let skip: Vec<u64> = arg(args, "--skip")
        .map(|s| s.split(',').filter_map(|x| x.parse().ok()).collect())
        .unwrap_or_default();
    let t0 = std::time::Instant::now();
    let ov = Override::default();
    // watchdog: a run that makes no progress for this long (a synchronous
    // loop inside one poll cannot be seen by the step budget) is reported as a
    // hang and the worker exits with status 3; the driver restarts it after
    // the offending run.
    // The limit is on CPU time consumed by the process during the run (the
    // watchdog thread sleeps, so that is the run's own CPU time): a loaded
    // machine slows wall clock but not this.  A generous wall-clock limit
    // remains as a backstop for a run that blocks without burning CPU.
    let run_timeout = argu(args, "--run-timeout", 60);
    let wall_backstop = argu(args, "--run-wall-timeout", 1800);
    let cur_run = std::sync::Arc::new(std::sync::atomic::AtomicU64::new(u64::MAX));
    let cur_start = std::sync::Arc::new(std::sync::atomic::AtomicU64::new(0));
    let cur_start_wall = std::sync::Arc::new(std::sync::atomic::AtomicU64::new(0));
    {
        let cur_run = cur_run.clone();
        let cur_start = cur_start.clone();
        let cur_start_wall = cur_start_wall.clone();
        let prop = prop.to_string();
        std::thread::spawn(move || loop {
            std::thread::sleep(std::time::Duration::from_millis(500));
            let r = cur_run.load(std::sync::atomic::Ordering::SeqCst);
            if r == u64::MAX {
                continue;
            }
            let st = cur_start.load(std::sync::atomic::Ordering::SeqCst);
            let st_wall = cur_start_wall.load(std::sync::atomic::Ordering::SeqCst);
            let now = cpu_ms();
            let now_wall = t0.elapsed().as_millis() as u64;
            if now.saturating_sub(st) > run_timeout * 1000
                || now_wall.saturating_sub(st_wall) > wall_backstop * 1000
            {
                println!(
                    "{}",
                    json!({"hang": {"run": r, "prop": prop, "seed": seed, "cpu_limit_s": run_timeout}})
                );
                std::process::exit(3);
            }
        });
    }
    let mut out = std::io::stdout();

    let mut evals = 0u64;
    let mut steps = 0u64;
    let mut reqs = 0u64;
    let mut nviol = 0u64;
    let mut stats: BTreeMap<String, u64> = BTreeMap::new();
    let mut probes: BTreeMap<String, u64> = BTreeMap::new();
    let mut faults: BTreeMap<String, u64> = BTreeMap::new();
    let mut geos: BTreeMap<String, u64> = BTreeMap::new();
    let mut hashes: BTreeSet<u64> = BTreeSet::new();
    let mut fps: BTreeSet<u64> = BTreeSet::new();
    let mut not_run = 0u64;
    let mut i = start;
    while i < start + count {
        if i % stride != offset || skip.contains(&i) {
            i += 1;
            continue;
        }
        if deadline_s > 0 && t0.elapsed().as_secs() >= deadline_s {
            not_run += 1;
            i += 1;
            continue;
        }
        // progress marker so that an abort can be attributed to a run
        let want_case = evals < samples;
        let _ = writeln!(out, "{}", json!({"begin": i}));
        let _ = out.flush();
        cur_start.store(cpu_ms(), std::sync::atomic::Ordering::SeqCst);
        cur_start_wall.store(t0.elapsed().as_millis() as u64, std::sync::atomic::Ordering::SeqCst);
        cur_run.store(i, std::sync::atomic::Ordering::SeqCst);
        let r = run_case(&p, seed, i, &ov, want_case);
        cur_run.store(u64::MAX, std::sync::atomic::Ordering::SeqCst);
        evals += 1;
        steps += r.steps;
        reqs += r.reqs;
        for (k, v) in &r.stats {
            *stats.entry(k.clone()).or_insert(0) += v;
        }
        for (k, v) in &r.probes {
            *probes.entry(k.clone()).or_insert(0) += v;
        }
        for (k, v) in &r.faults {
            *faults.entry(k.clone()).or_insert(0) += v;
        }
        *geos.entry(r.geo.clone()).or_insert(0) += 1;
        if r.nontrivial {
            hashes.insert(chooser::mix(r.fingerprint, r.cfg_hash));
        }
        fps.insert(r.fingerprint);
        if emit_fp {
            let _ = writeln!(
                out,
                "{}",
                json!({"fp": [i, format!("{:016x}", r.fingerprint), r.steps, r.viols.first().map(|v| v.sig.clone())]})
            );
        }
        if !r.viols.is_empty() {
            nviol += 1;
            if nviol <= max_viol {
                let _ = writeln!(out, "{}", json!({"violation": r.to_json(true)}));
            }
        } else if want_case {
            let _ = writeln!(out, "{}", json!({"sample": r.to_json(true)}));
        }
        i += 1;
    }
    let hv: Vec<String> = hashes.iter().map(|h| format!("{h:016x}")).collect();
    let fv: Vec<String> = fps.iter().map(|h| format!("{h:016x}")).collect();
    let _ = writeln!(
        out,
        "{}",
        json!({"summary": {
            "evaluations": evals, "not_run": not_run, "steps": steps, "reqs": reqs,
            "violating_runs": nviol, "stats": stats, "probes": probes, "faults": faults,
            "geos": geos, "hashes": hv, "fingerprints": fv,
            "wall_s": t0.elapsed().as_secs_f64(),
        }})
    );
    0
}

fn load_override(v: &Value) -> Override {
    let mut ov = Override::default();
    if let Some(c) = v.get("cfg") {
        if !c.is_null() {
            ov.cfg = Some(serde_json::from_value(c.clone()).expect("bad cfg in replay"));
        }
    }
    if let Some(s) = v.get("steps") {
        if !s.is_null() {
            ov.steps = Some(serde_json::from_value(s.clone()).expect("bad steps in replay"));
        }
    }
    if let Some(s) = v.get("sched") {
        if !s.is_null() {
            ov.sched = Some(serde_json::from_value(s.clone()).expect("bad sched in replay"));
        }
    }
    if let Some(e) = v.get("extra") {
        ov.extra = Some(e.clone());
    }
    ov
}

/// replay a case file: {"prop","seed","run","case":{cfg,steps,sched}, "expect": sig}
fn cmd_replay(args: &[String]) -> i32 {
    let path = &args[0];
    let text = std::fs::read_to_string(path).expect("cannot read replay file");
    let v: Value = serde_json::from_str(&text).expect("bad replay json");
    let prop = v["prop"].as_str().expect("prop");
    let p = props::profile(prop).expect("unknown property");
    let seed = v["seed"].as_u64().unwrap_or(1);
    let run = v["run"].as_u64().unwrap_or(0);
    let ov = load_override(&v["case"]);
    let limit = argu(args, "--run-timeout", 60);
    std::thread::spawn(move || loop {
        std::thread::sleep(std::time::Duration::from_millis(500));
        if cpu_ms() > limit * 1000 {
            println!("{}", json!({"hang": {"cpu_limit_s": limit}}));
            std::process::exit(3);
        }
    });
    let r = run_case(&p, seed, run, &ov, true);
    println!("{}", json!({"replay": r.to_json(false)}));
    0
}

fn main() {
    props::install_panic_hook();
    let args: Vec<String> = std::env::args().skip(1).collect();
    if args.is_empty() {
        eprintln!("usage: qsim run|replay ...");
        std::process::exit(2);
    }
    let code = match args[0].as_str() {
        "run" => cmd_run(&args[1..]),
        "replay" => cmd_replay(&args[1..]),
        "show" => cmd_show(&args[1..]),
        "info" => cmd_info(&args[1..]),
        "selftest-builder" => {
            let a = &args[1..];
            match selftest::builder_triangle(argu(a, "--seed", 1), argu(a, "--count", 500)) {
                Ok(n) => {
                    println!("builder triangle ok: {n} images");
                    0
                }
                Err(e) => {
                    println!("builder triangle FAILED: {e}");
                    2
                }
            }
        }
        _ => {
            eprintln!("unknown command");
            2
        }
    };
    std::process::exit(code);
}

/// print the generated case of a run without executing it
fn cmd_info(args: &[String]) -> i32 {
    let prop = arg(args, "--prop").expect("--prop");
    let p = props::profile(prop).expect("unknown property");
    println!(
        "{}",
        json!({"prop": p.id, "kind": format!("{:?}", p.kind), "quick": p.quick, "thorough": p.thorough})
    );
    0
}

fn cmd_show(args: &[String]) -> i32 {
    let prop = arg(args, "--prop").expect("--prop");
    let p = props::profile(prop).expect("unknown property");
    let seed = argu(args, "--seed", 1);
    let run = argu(args, "--run", 0);
    let (cfg, steps, _) = props::gen_case(&p, seed, run);
    println!("{}", json!({"cfg": cfg, "steps": steps}));
    0
}
