//! Self tests of the harness' own components (no library code involved).
use crate::chooser::{mix, Rng};
use crate::content;
use crate::qspec::{self, Img};
use crate::workload::{gen_cfg, GenOpts};
use crate::world::{build_layer, initial_base};

/// builder -> checker (exact) -> reader == ground truth
pub fn builder_triangle(seed: u64, count: u64) -> Result<u64, String> {
    let mut o = GenOpts::default();
    o.force_builder = true;
    o.l1_short_pct = 30;
    let mut images = 0;
    for i in 0..count {
        let mut rng = Rng::new(mix(seed, i));
        let cfg = gen_cfg(&mut rng, &o);
        let n = cfg.layers.len();
        for (li, l) in cfg.layers.iter().enumerate() {
            let bytes = build_layer(l, li, n, 512);
            images += 1;
            let v = qspec::check_image(&bytes, true);
            if !v.exact_ok() {
                return Err(format!(
                    "case {i} layer {li}: builder image not exact: {:?}\nlayer: {:?}",
                    v.first_problem(false),
                    l
                ));
            }
            let h = qspec::parse_header(&bytes).map_err(|e| format!("case {i}: {e}"))?;
            if h.size != l.vsize || h.cluster_bits != l.cluster_bits {
                return Err(format!("case {i}: header fields wrong"));
            }
            let cs = h.cs();
            for (g, k) in &l.guest {
                let got = qspec::read_guest_cluster(&bytes, &h, *g)
                    .map_err(|e| format!("case {i} layer {li} g {g}: {e}"))?;
                let want: Option<Vec<u8>> = match k {
                    1 | 4 => Some(qspec::cluster_bytes(initial_base(li, *g, *k), cs)),
                    2 | 3 => Some(vec![0u8; cs as usize]),
                    _ => None,
                };
                if got != want {
                    return Err(format!(
                        "case {i} layer {li} guest cluster {g} kind {k}: reader disagrees with ground truth (got {:?})",
                        got.as_ref().map(|b| content::describe(&b[..512]))
                    ));
                }
            }
            // a cluster not in the guest list must be unallocated
            let gcl = h.guest_clusters();
            for g in [0, gcl / 2, gcl - 1] {
                if !l.guest.iter().any(|(gg, _)| *gg == g) {
                    let got = qspec::read_guest_cluster(&bytes, &h, g)?;
                    if got.is_some() {
                        return Err(format!("case {i} layer {li}: cluster {g} should be unallocated"));
                    }
                }
            }
            let _ = bytes.size();
        }
    }
    Ok(images)
}
