//! The simulator proper: simulated host files (`PageFile`), the backend seam
//! (`SimIo: Qcow2IoOps`) with its request log and fault injection, and the
//! cooperative executor that decides which ready task runs next and which
//! outstanding backend request completes next (and how).
use crate::chooser::Chooser;
use qcow2_rs::error::Qcow2Result;
use qcow2_rs::ops::Qcow2IoOps;
use std::cell::{Cell, RefCell};
use std::collections::{BTreeMap, BTreeSet};
use std::future::Future;
use std::path::Path;
use std::pin::Pin;
use std::rc::Rc;
use std::sync::{Arc, Mutex};
use std::task::{Context, Poll, Wake, Waker};

pub const SECTOR: usize = 512;
pub const MAX_FILE_SIZE: u64 = 4 << 30;
/// content of the part of a read buffer that a short or failed read did not fill
pub const STALE_BYTE: u8 = 0xa7;

// ---------------------------------------------------------------------------
// PageFile: persistent (cheaply clonable) sparse byte file
// ---------------------------------------------------------------------------

#[derive(Clone, Default)]
pub struct PageFile {
    pages: Vec<Option<Rc<[u8; SECTOR]>>>,
    len: u64,
}

impl PageFile {
    pub fn new() -> Self {
        Self::default()
    }

    pub fn from_bytes(b: &[u8]) -> Self {
        let mut f = PageFile::new();
        f.write(0, b);
        f
    }

    pub fn len(&self) -> u64 {
        self.len
    }

    pub fn set_len(&mut self, len: u64) {
        // only used for extension / truncation by the harness
        if len < self.len {
            let keep = (len as usize).div_ceil(SECTOR);
            self.pages.truncate(keep);
            let tail = (len as usize) % SECTOR;
            if tail != 0 {
                if let Some(Some(p)) = self.pages.last_mut() {
                    let mut np = **p;
                    for b in np[tail..].iter_mut() {
                        *b = 0;
                    }
                    *p = Rc::new(np);
                }
            }
        }
        self.len = len;
    }

    fn page(&self, idx: usize) -> Option<&[u8; SECTOR]> {
        self.pages.get(idx).and_then(|p| p.as_deref())
    }

    /// read up to buf.len() bytes; short at EOF; returns count
    pub fn read(&self, off: u64, buf: &mut [u8]) -> usize {
        if off >= self.len {
            return 0;
        }
        let n = std::cmp::min(buf.len() as u64, self.len - off) as usize;
        let mut done = 0;
        while done < n {
            let pos = off as usize + done;
            let pi = pos / SECTOR;
            let po = pos % SECTOR;
            let l = std::cmp::min(SECTOR - po, n - done);
            match self.page(pi) {
                Some(p) => buf[done..done + l].copy_from_slice(&p[po..po + l]),
                None => buf[done..done + l].fill(0),
            }
            done += l;
        }
        n
    }

    pub fn read_vec(&self, off: u64, len: usize) -> Vec<u8> {
        let mut v = vec![0u8; len];
        let n = self.read(off, &mut v);
        v.truncate(n);
        v
    }

    /// read exactly len bytes, zero filled beyond EOF
    pub fn read_padded(&self, off: u64, len: usize) -> Vec<u8> {
        let mut v = vec![0u8; len];
        let _ = self.read(off, &mut v);
        v
    }

    pub fn write(&mut self, off: u64, data: &[u8]) {
        if data.is_empty() {
            return;
        }
        let end = off + data.len() as u64;
        let need = (end as usize).div_ceil(SECTOR);
        if self.pages.len() < need {
            self.pages.resize(need, None);
        }
        let mut done = 0;
        while done < data.len() {
            let pos = off as usize + done;
            let pi = pos / SECTOR;
            let po = pos % SECTOR;
            let l = std::cmp::min(SECTOR - po, data.len() - done);
            let src = &data[done..done + l];
            if l == SECTOR {
                if src.iter().all(|b| *b == 0) {
                    self.pages[pi] = None;
                } else {
                    let mut np = [0u8; SECTOR];
                    np.copy_from_slice(src);
                    self.pages[pi] = Some(Rc::new(np));
                }
            } else {
                let mut np = match &self.pages[pi] {
                    Some(p) => **p,
                    None => [0u8; SECTOR],
                };
                np[po..po + l].copy_from_slice(src);
                self.pages[pi] = Some(Rc::new(np));
            }
            done += l;
        }
        if end > self.len {
            self.len = end;
        }
    }

    /// zero a range without changing the length (hole punch + KEEP_SIZE)
    pub fn punch(&mut self, off: u64, len: u64) {
        if off >= self.len || len == 0 {
            return;
        }
        let end = std::cmp::min(off.saturating_add(len), self.len);
        let mut pos = off;
        while pos < end {
            let pi = (pos as usize) / SECTOR;
            let po = (pos as usize) % SECTOR;
            let l = std::cmp::min((SECTOR - po) as u64, end - pos) as usize;
            if pi < self.pages.len() {
                if l == SECTOR {
                    self.pages[pi] = None;
                } else if let Some(p) = &self.pages[pi] {
                    let mut np = **p;
                    np[po..po + l].fill(0);
                    self.pages[pi] = Some(Rc::new(np));
                }
            }
            pos += l as u64;
        }
    }

    pub fn to_bytes(&self) -> Vec<u8> {
        self.read_padded(0, self.len as usize)
    }

    pub fn allocated_sectors(&self) -> usize {
        self.pages.iter().filter(|p| p.is_some()).count()
    }

    pub fn content_hash(&self) -> u64 {
        let mut h: u64 = 0xcbf2_9ce4_8422_2325 ^ self.len;
        for (i, p) in self.pages.iter().enumerate() {
            if let Some(p) = p {
                h = (h ^ (i as u64)).wrapping_mul(0x0000_0100_0000_01b3);
                for c in p.chunks(8) {
                    let w = u64::from_le_bytes(c.try_into().unwrap());
                    h = (h.rotate_left(5) ^ w).wrapping_mul(0x517c_c1b7_2722_0a95);
                }
            }
        }
        h
    }
}

// ---------------------------------------------------------------------------
// Requests, log
// ---------------------------------------------------------------------------

#[derive(Clone, Copy, Debug, PartialEq, Eq, PartialOrd, Ord, Hash)]
pub enum ReqKind {
    Read,
    Write,
    Punch,
    Fsync,
}

impl ReqKind {
    pub fn name(&self) -> &'static str {
        match self {
            ReqKind::Read => "read",
            ReqKind::Write => "write",
            ReqKind::Punch => "punch",
            ReqKind::Fsync => "fsync",
        }
    }
    pub fn modifies(&self) -> bool {
        matches!(self, ReqKind::Write | ReqKind::Punch)
    }
}

/// One backend request, as recorded in the log of its file
#[derive(Clone, Debug)]
pub struct ReqRec {
    pub id: usize,
    pub file: usize,
    pub kind: ReqKind,
    pub off: u64,
    pub len: usize,
    pub data: Option<Rc<Vec<u8>>>,
    pub submit_seq: u64,
    pub complete_seq: Option<u64>,
    pub ok: Option<bool>,
    pub task: usize,
    pub api_op: usize,
    pub buf_addr: usize,
    pub inline: bool,
    /// true if the effect was applied to the visible file (ok writes/punches)
    pub applied: bool,
    /// position in the fault numbering (requests to the fault file, in
    /// completion order)
    pub ord: Option<usize>,
}

struct Slot {
    outcome: Option<Outcome>,
    waker: Option<Waker>,
    cancelled: bool,
}

enum Outcome {
    Read(Result<Vec<u8>, &'static str>),
    Unit(Result<(), &'static str>),
}

struct Pending {
    req: usize,
    slot: Rc<RefCell<Slot>>,
    /// task that submitted the request
    task: usize,
}

#[derive(Clone, Debug, Default)]
pub struct FaultPlan {
    /// ordinals (in global submission order, counting only requests on
    /// `fault_file`) of requests that must fail
    pub fail_ordinals: BTreeSet<usize>,
    pub fault_file: usize,
    /// every punch fails (platform without hole punching)
    pub punch_unsupported: bool,
    /// writes extending the file beyond this size fail (ENOSPC)
    pub capacity: Option<u64>,
}

#[derive(Clone, Debug)]
pub struct Knobs {
    /// percent of requests completing inline (without suspending)
    pub inline_pct: u32,
    /// writes become visible to reads at submit instead of at completion
    pub early_visible: bool,
    /// percent chance to take the canonical action (lowest ready task, else
    /// oldest request) instead of a uniformly random one
    pub fifo_pct: u32,
    /// prefer polling ready tasks before completing requests
    pub poll_first_pct: u32,
    /// > 0: priority schedule - every task of a batch gets a random
    /// priority, the enabled action (poll of a ready task / completion of a
    /// request) of the highest-priority task is always taken, and at this
    /// many random steps the task that is running drops to the lowest
    /// priority.  Lets one task run far ahead while another is stalled at
    /// an arbitrary point, which uniform choices almost never produce.
    pub pct_depth: u32,
}

impl Default for Knobs {
    fn default() -> Self {
        Knobs {
            inline_pct: 0,
            early_visible: false,
            fifo_pct: 0,
            poll_first_pct: 0,
            pct_depth: 0,
        }
    }
}

pub struct SimFileState {
    pub path: String,
    pub content: PageFile,
    pub block_size: usize,
    /// harness expectation: this file must never receive a modifying request
    pub expect_ro: bool,
    pub n_reads: u64,
    pub n_writes: u64,
    pub n_punches: u64,
    pub n_fsyncs: u64,
}

#[derive(Clone, Debug)]
pub struct Anomaly {
    pub kind: &'static str,
    pub detail: String,
    pub seq: u64,
}

pub struct Core {
    pub ch: RefCell<Chooser>,
    pub files: RefCell<Vec<SimFileState>>,
    pub reqs: RefCell<Vec<ReqRec>>,
    pending: RefCell<Vec<Pending>>,
    pub seq: Cell<u64>,
    pub steps: Cell<u64>,
    pub cur_task: Cell<usize>,
    pub cur_op: Cell<usize>,
    pub knobs: RefCell<Knobs>,
    pub faults: RefCell<FaultPlan>,
    pub fault_ordinal: Cell<usize>,
    pub faults_fired: RefCell<BTreeMap<&'static str, u64>>,
    pub anomalies: RefCell<Vec<Anomaly>>,
    pub fingerprint: Cell<u64>,
    pub trace: RefCell<Vec<String>>,
    pub trace_on: Cell<bool>,
    pub inline_only: Cell<bool>,
}

thread_local! {
    static CURRENT: RefCell<Option<Rc<Core>>> = const { RefCell::new(None) };
}

pub struct SimGuard {
    prev: Option<Rc<Core>>,
}

impl Drop for SimGuard {
    fn drop(&mut self) {
        let prev = self.prev.take();
        CURRENT.with(|c| *c.borrow_mut() = prev);
    }
}

#[derive(Clone)]
pub struct Sim {
    pub core: Rc<Core>,
}

#[derive(Debug, Clone, PartialEq, Eq)]
pub enum Stop {
    Deadlock(String),
    Livelock,
}

impl Sim {
    pub fn new(ch: Chooser) -> Sim {
        Sim {
            core: Rc::new(Core {
                ch: RefCell::new(ch),
                files: RefCell::new(Vec::new()),
                reqs: RefCell::new(Vec::new()),
                pending: RefCell::new(Vec::new()),
                seq: Cell::new(0),
                steps: Cell::new(0),
                cur_task: Cell::new(0),
                cur_op: Cell::new(0),
                knobs: RefCell::new(Knobs::default()),
                faults: RefCell::new(FaultPlan::default()),
                fault_ordinal: Cell::new(0),
                faults_fired: RefCell::new(BTreeMap::new()),
                anomalies: RefCell::new(Vec::new()),
                fingerprint: Cell::new(0x1234_5678_9abc_def0),
                trace: RefCell::new(Vec::new()),
                trace_on: Cell::new(false),
                inline_only: Cell::new(false),
            }),
        }
    }

    /// make this simulator the one `SimIo::new(path, ..)` resolves against
    pub fn enter(&self) -> SimGuard {
        let prev = CURRENT.with(|c| c.borrow_mut().replace(self.core.clone()));
        SimGuard { prev }
    }

    pub fn add_file(&self, path: &str, content: PageFile, block_size: usize) -> usize {
        let mut f = self.core.files.borrow_mut();
        f.push(SimFileState {
            path: path.to_string(),
            content,
            block_size,
            expect_ro: false,
            n_reads: 0,
            n_writes: 0,
            n_punches: 0,
            n_fsyncs: 0,
        });
        f.len() - 1
    }

    pub fn file_id(&self, path: &str) -> Option<usize> {
        self.core.files.borrow().iter().position(|f| f.path == path)
    }

    pub fn file_content(&self, id: usize) -> PageFile {
        self.core.files.borrow()[id].content.clone()
    }

    pub fn set_file_content(&self, id: usize, c: PageFile) {
        self.core.files.borrow_mut()[id].content = c;
    }

    pub fn io(&self, file: usize, ro: bool) -> SimIo {
        SimIo {
            core: self.core.clone(),
            file,
            ro,
        }
    }

    pub fn seq(&self) -> u64 {
        self.core.seq.get()
    }

    pub fn fired(&self, what: &'static str) {
        *self.core.faults_fired.borrow_mut().entry(what).or_insert(0) += 1;
    }

    pub fn pending_count(&self) -> usize {
        self.core.pending.borrow().len()
    }

    pub fn set_op(&self, op: usize) {
        self.core.cur_op.set(op);
    }

    /// Run one future to completion (other than the requests it issues there
    /// is nothing else to schedule).
    pub fn run_one<'a, R: 'a>(
        &self,
        fut: impl Future<Output = R> + 'a,
        budget: u64,
    ) -> Result<R, Stop> {
        let out: Rc<RefCell<Option<R>>> = Rc::new(RefCell::new(None));
        let o2 = out.clone();
        let task: Pin<Box<dyn Future<Output = ()> + 'a>> = Box::pin(async move {
            let r = fut.await;
            *o2.borrow_mut() = Some(r);
        });
        let res = self.run_tasks(vec![task], budget);
        match res {
            Ok(()) => Ok(out.borrow_mut().take().unwrap()),
            Err(s) => Err(s),
        }
    }

    /// Run a set of tasks until all finished.  Every step is one decision of
    /// the schedule chooser among: poll a ready task / complete an outstanding
    /// backend request.
    pub fn run_tasks<'a>(
        &self,
        mut tasks: Vec<Pin<Box<dyn Future<Output = ()> + 'a>>>,
        budget: u64,
    ) -> Result<(), Stop> {
        let core = &self.core;
        let n = tasks.len();
        let ready = Arc::new(Mutex::new(vec![true; n]));
        let mut finished = vec![false; n];
        let wakers: Vec<Waker> = (0..n)
            .map(|i| {
                Waker::from(Arc::new(TaskWake {
                    id: i,
                    ready: ready.clone(),
                }))
            })
            .collect();
        let start_steps = core.steps.get();
        let saved_task = core.cur_task.get();
        let _ = qcow2_rs::verif::take_last_probes();
        // priority schedule: random priorities, change points at random steps
        let pct_depth = core.knobs.borrow().pct_depth;
        let mut prio: Vec<u64> = vec![0; n];
        let mut change_at: Vec<u64> = vec![];
        let mut low_water = 0u64;
        if pct_depth > 0 && n > 1 {
            let mut ch = core.ch.borrow_mut();
            // a random permutation as priorities (higher runs first)
            let mut order: Vec<usize> = (0..n).collect();
            for i in (1..n).rev() {
                let j = ch.pick(i as u64 + 1) as usize;
                order.swap(i, j);
            }
            for (rank, t) in order.iter().enumerate() {
                prio[*t] = 1000 + rank as u64;
            }
            low_water = 999;
            for _ in 0..pct_depth {
                // most batches take a few hundred steps
                change_at.push(ch.pick(160));
            }
        }

        let result = loop {
            let ready_ids: Vec<usize> = {
                let r = ready.lock().unwrap();
                (0..n).filter(|i| r[*i] && !finished[*i]).collect()
            };
            let npend = core.pending.borrow().len();
            if finished.iter().all(|f| *f) {
                break Ok(());
            }
            let total = ready_ids.len() + npend;
            if total == 0 {
                let unfinished: Vec<usize> = (0..n).filter(|i| !finished[*i]).collect();
                let last = qcow2_rs::verif::take_last_probes();
                let mut waits = String::new();
                for t in &unfinished {
                    let v = last.get(t).cloned().unwrap_or_default();
                    let tail: Vec<&str> = v.iter().rev().take(4).rev().copied().collect();
                    waits.push_str(&format!("\n    task {t}: last probes {:?}", tail));
                }
                break Err(Stop::Deadlock(format!(
                    "tasks {:?} unfinished, none ready, no request outstanding{waits}",
                    unfinished
                )));
            }
            if core.steps.get() - start_steps > budget {
                break Err(Stop::Livelock);
            }
            core.steps.set(core.steps.get() + 1);

            // decide
            let (fifo_pct, poll_first_pct) = {
                let k = core.knobs.borrow();
                (k.fifo_pct, k.poll_first_pct)
            };
            let idx = if total == 1 {
                0
            } else if pct_depth > 0 && n > 1 {
                // the enabled action of the highest-priority task
                let pend = core.pending.borrow();
                let pick_best = |prio: &Vec<u64>| -> usize {
                    let mut best: Option<(u64, usize)> = None;
                    for (i, t) in ready_ids.iter().enumerate() {
                        if best.map(|b| prio[*t] > b.0).unwrap_or(true) {
                            best = Some((prio[*t], i));
                        }
                    }
                    for (i, p) in pend.iter().enumerate() {
                        let pt = if p.task < n { prio[p.task] } else { 0 };
                        if best.map(|b| pt > b.0).unwrap_or(true) {
                            best = Some((pt, ready_ids.len() + i));
                        }
                    }
                    best.map(|b| b.1).unwrap_or(0)
                };
                let mut idx = pick_best(&prio);
                let step_no = core.steps.get() - start_steps;
                if change_at.contains(&step_no) {
                    // the task about to act drops below everybody else: it
                    // stalls right here while the others run
                    let t = if idx < ready_ids.len() {
                        ready_ids[idx]
                    } else {
                        pend[idx - ready_ids.len()].task
                    };
                    if t < n {
                        prio[t] = low_water;
                        low_water = low_water.saturating_sub(1);
                    }
                    idx = pick_best(&prio);
                }
                idx
            } else {
                let mut ch = core.ch.borrow_mut();
                if fifo_pct > 0 && ch.pick(100) < fifo_pct as u64 {
                    0
                } else if poll_first_pct > 0
                    && !ready_ids.is_empty()
                    && ch.pick(100) < poll_first_pct as u64
                {
                    ch.pick(ready_ids.len() as u64) as usize
                } else {
                    ch.pick(total as u64) as usize
                }
            };

            if idx < ready_ids.len() {
                let t = ready_ids[idx];
                ready.lock().unwrap()[t] = false;
                core.cur_task.set(t);
                qcow2_rs::verif::set_current_task(t);
                self.note_event(1, t as u64, 0, 0);
                let mut cx = Context::from_waker(&wakers[t]);
                if let Poll::Ready(()) = tasks[t].as_mut().poll(&mut cx) {
                    finished[t] = true;
                }
            } else {
                let p = core.pending.borrow_mut().remove(idx - ready_ids.len());
                self.complete(p);
            }
        };
        core.cur_task.set(saved_task);
        // drop unfinished tasks (their request futures mark themselves
        // cancelled); forget outstanding requests of this batch
        drop(tasks);
        if result.is_err() {
            core.pending.borrow_mut().clear();
        }
        result
    }

    fn note_event(&self, kind: u64, a: u64, b: u64, c: u64) {
        let core = &self.core;
        let mut h = core.fingerprint.get();
        for v in [kind, a, b, c] {
            h = (h.rotate_left(5) ^ v).wrapping_mul(0x517c_c1b7_2722_0a95);
        }
        core.fingerprint.set(h);
    }

    fn complete(&self, p: Pending) {
        let core = &self.core;
        let seq = core.seq.get() + 1;
        core.seq.set(seq);
        let outcome = core.apply(p.req, seq);
        {
            let r = &core.reqs.borrow()[p.req];
            self.note_event(2, r.kind as u64, r.off, r.len as u64);
            if core.trace_on.get() {
                core.trace.borrow_mut().push(format!(
                    "{:>5} complete #{} {} f{} off={:#x} len={} ok={:?}",
                    seq,
                    r.id,
                    r.kind.name(),
                    r.file,
                    r.off,
                    r.len,
                    r.ok
                ));
            }
        }
        let mut s = p.slot.borrow_mut();
        if !s.cancelled {
            s.outcome = Some(outcome);
            if let Some(w) = s.waker.take() {
                w.wake();
            }
        }
    }
}

struct TaskWake {
    id: usize,
    ready: Arc<Mutex<Vec<bool>>>,
}

impl Wake for TaskWake {
    fn wake(self: Arc<Self>) {
        self.ready.lock().unwrap()[self.id] = true;
    }
    fn wake_by_ref(self: &Arc<Self>) {
        self.ready.lock().unwrap()[self.id] = true;
    }
}

impl Core {
    fn anomaly(&self, kind: &'static str, detail: String) {
        self.anomalies.borrow_mut().push(Anomaly {
            kind,
            detail,
            seq: self.seq.get(),
        });
    }

    /// register a request (submission).  Returns its index.
    fn submit(
        &self,
        file: usize,
        kind: ReqKind,
        off: u64,
        len: usize,
        data: Option<&[u8]>,
        buf_addr: usize,
        ro_handle: bool,
    ) -> usize {
        let seq = self.seq.get() + 1;
        self.seq.set(seq);
        let id = self.reqs.borrow().len();
        let data = data.map(|d| Rc::new(d.to_vec()));
        {
            let mut files = self.files.borrow_mut();
            let f = &mut files[file];
            match kind {
                ReqKind::Read => f.n_reads += 1,
                ReqKind::Write => f.n_writes += 1,
                ReqKind::Punch => f.n_punches += 1,
                ReqKind::Fsync => f.n_fsyncs += 1,
            }
            let bs = f.block_size;
            // C16 monitor: offset / length multiples of the block size, buffer
            // aligned (the harness only ever hands in aligned buffers)
            if kind != ReqKind::Fsync {
                if off % bs as u64 != 0 || len % bs != 0 {
                    self.anomaly(
                        "unaligned_request",
                        format!(
                            "{} f{} off={:#x} len={} block_size={}",
                            kind.name(),
                            file,
                            off,
                            len,
                            bs
                        ),
                    );
                } else if kind != ReqKind::Punch && len > 0 && buf_addr % bs != 0 {
                    self.anomaly(
                        "unaligned_buffer",
                        format!(
                            "{} f{} off={:#x} len={} buf%bs={} block_size={}",
                            kind.name(),
                            file,
                            off,
                            len,
                            buf_addr % bs,
                            bs
                        ),
                    );
                }
            }
            if kind.modifies() && (f.expect_ro || ro_handle) {
                self.anomaly(
                    "write_to_readonly_file",
                    format!("{} f{} ({}) off={:#x} len={}", kind.name(), file, f.path, off, len),
                );
            }
        }
        if self.trace_on.get() {
            self.trace.borrow_mut().push(format!(
                "{:>5} submit   #{} {} f{} off={:#x} len={} task={} op={}",
                seq,
                id,
                kind.name(),
                file,
                off,
                len,
                self.cur_task.get(),
                self.cur_op.get()
            ));
        }
        self.reqs.borrow_mut().push(ReqRec {
            id,
            file,
            kind,
            off,
            len,
            data,
            submit_seq: seq,
            complete_seq: None,
            ok: None,
            task: self.cur_task.get(),
            api_op: self.cur_op.get(),
            buf_addr,
            inline: false,
            applied: false,
            ord: None,
        });
        // early visibility of writes: apply to the visible content now
        if kind == ReqKind::Write
            && self.knobs.borrow().early_visible
            && off.saturating_add(len as u64) <= MAX_FILE_SIZE
        {
            // the fault decision is made at completion; an early-visible write
            // that later fails stays visible (a failed write may have reached
            // the page cache) -- the fault profiles draw this knob too: part of the fault model (F55).
            let r = &self.reqs.borrow()[id];
            let mut files = self.files.borrow_mut();
            files[file].content.write(off, r.data.as_ref().unwrap());
        }
        id
    }

    /// decide the outcome of a request and apply its effect
    fn apply(&self, idx: usize, seq: u64) -> Outcome {
        let (file, kind, off, len, data) = {
            let r = &self.reqs.borrow()[idx];
            (r.file, r.kind, r.off, r.len, r.data.clone())
        };
        // fault decision
        let mut fail: Option<&'static str> = None;
        {
            let fp = self.faults.borrow();
            if file == fp.fault_file {
                let ord = self.fault_ordinal.get();
                self.fault_ordinal.set(ord + 1);
                self.reqs.borrow_mut()[idx].ord = Some(ord);
                if fp.fail_ordinals.contains(&ord) {
                    fail = Some("sim: injected I/O error");
                }
            }
            if kind == ReqKind::Punch && fp.punch_unsupported && fail.is_none() {
                fail = Some("sim: hole punch not supported");
            }
            if kind == ReqKind::Write {
                if let Some(cap) = fp.capacity {
                    if off + len as u64 > cap && fail.is_none() {
                        fail = Some("sim: no space left on device");
                    }
                }
            }
        }
        // the simulated file system has a maximum file size (EFBIG); a request
        // beyond it is also worth a note: the image layouts used here never
        // come near it, so such an offset was derived from bad metadata
        if kind == ReqKind::Write && off.saturating_add(len as u64) > MAX_FILE_SIZE && fail.is_none() {
            fail = Some("sim: file too large (EFBIG)");
            self.anomaly(
                "write_beyond_max_file_size",
                format!("write f{} off={:#x} len={}", file, off, len),
            );
        }
        if kind == ReqKind::Punch && len == 0 && fail.is_none() {
            // fallocate(2): EINVAL for len == 0
            fail = Some("sim: EINVAL (zero-length fallocate)");
        }
        if let Some(what) = fail {
            let name = if what.contains("not supported") {
                "punch_unsupported"
            } else if what.contains("EFBIG") {
                "efbig"
            } else if what.contains("no space") {
                "enospc"
            } else if what.contains("EINVAL") {
                "punch_einval"
            } else {
                match kind {
                    ReqKind::Read => "io_error_read",
                    ReqKind::Write => "io_error_write",
                    ReqKind::Punch => "io_error_punch",
                    ReqKind::Fsync => "io_error_fsync",
                }
            };
            *self.faults_fired.borrow_mut().entry(name).or_insert(0) += 1;
        }
        let outcome = match kind {
            ReqKind::Read => match fail {
                Some(e) => Outcome::Read(Err(e)),
                None => {
                    let files = self.files.borrow();
                    Outcome::Read(Ok(files[file].content.read_vec(off, len)))
                }
            },
            ReqKind::Write => match fail {
                Some(e) => Outcome::Unit(Err(e)),
                None => {
                    // with early visibility the write took effect at submit;
                    // applying it again here would let it overtake a write
                    // submitted in between (one request, one effect)
                    let early = self.knobs.borrow().early_visible
                        && !self.reqs.borrow()[idx].inline;
                    if !early {
                        let mut files = self.files.borrow_mut();
                        files[file].content.write(off, data.as_ref().unwrap());
                    }
                    Outcome::Unit(Ok(()))
                }
            },
            ReqKind::Punch => match fail {
                Some(e) => Outcome::Unit(Err(e)),
                None => {
                    let mut files = self.files.borrow_mut();
                    files[file].content.punch(off, len as u64);
                    Outcome::Unit(Ok(()))
                }
            },
            ReqKind::Fsync => match fail {
                Some(e) => Outcome::Unit(Err(e)),
                None => Outcome::Unit(Ok(())),
            },
        };
        let mut reqs = self.reqs.borrow_mut();
        let r = &mut reqs[idx];
        r.complete_seq = Some(seq);
        r.ok = Some(fail.is_none());
        r.applied = fail.is_none() && kind.modifies();
        outcome
    }
}

// ---------------------------------------------------------------------------
// SimIo: the Qcow2IoOps implementation
// ---------------------------------------------------------------------------

pub struct SimIo {
    core: Rc<Core>,
    pub file: usize,
    pub ro: bool,
}

impl SimIo {
    pub fn exists(path: &Path) -> bool {
        let p = path.to_string_lossy().to_string();
        CURRENT.with(|c| {
            c.borrow()
                .as_ref()
                .map(|core| core.files.borrow().iter().any(|f| f.path == p))
                .unwrap_or(false)
        })
    }

    /// Constructor with the signature `qcow2_setup_dev_fn!` expects.
    pub async fn new(path: &Path, ro: bool, _dio: bool) -> SimIo {
        let core = CURRENT
            .with(|c| c.borrow().clone())
            .expect("SimIo::new outside of a simulation");
        let p = path.to_string_lossy().to_string();
        let file = core
            .files
            .borrow()
            .iter()
            .position(|f| f.path == p)
            .unwrap_or_else(|| panic!("sim: no such file {p}"));
        SimIo { core, file, ro }
    }

    fn request(
        &self,
        kind: ReqKind,
        off: u64,
        len: usize,
        data: Option<&[u8]>,
        buf_addr: usize,
    ) -> ReqFuture {
        ReqFuture {
            core: self.core.clone(),
            file: self.file,
            ro: self.ro,
            kind,
            off,
            len,
            data: data.map(|d| d.to_vec()),
            buf_addr,
            slot: None,
        }
    }
}

struct ReqFuture {
    core: Rc<Core>,
    file: usize,
    ro: bool,
    kind: ReqKind,
    off: u64,
    len: usize,
    data: Option<Vec<u8>>,
    buf_addr: usize,
    slot: Option<Rc<RefCell<Slot>>>,
}

impl Future for ReqFuture {
    type Output = OutcomeOut;

    fn poll(mut self: Pin<&mut Self>, cx: &mut Context<'_>) -> Poll<OutcomeOut> {
        let this = &mut *self;
        match &this.slot {
            None => {
                let core = this.core.clone();
                let data = this.data.take();
                let idx = core.submit(
                    this.file,
                    this.kind,
                    this.off,
                    this.len,
                    data.as_deref(),
                    this.buf_addr,
                    this.ro,
                );
                let inline_pct = core.knobs.borrow().inline_pct;
                let inline = core.inline_only.get()
                    || inline_pct >= 100
                    || (inline_pct > 0 && core.ch.borrow_mut().pick(100) < inline_pct as u64);
                if inline {
                    let seq = core.seq.get() + 1;
                    core.seq.set(seq);
                    core.reqs.borrow_mut()[idx].inline = true;
                    let o = core.apply(idx, seq);
                    this.slot = Some(Rc::new(RefCell::new(Slot {
                        outcome: None,
                        waker: None,
                        cancelled: true,
                    })));
                    return Poll::Ready(o.into());
                }
                let slot = Rc::new(RefCell::new(Slot {
                    outcome: None,
                    waker: Some(cx.waker().clone()),
                    cancelled: false,
                }));
                core.pending.borrow_mut().push(Pending {
                    req: idx,
                    slot: slot.clone(),
                    task: core.cur_task.get(),
                });
                this.slot = Some(slot);
                Poll::Pending
            }
            Some(slot) => {
                let mut s = slot.borrow_mut();
                match s.outcome.take() {
                    Some(o) => {
                        s.cancelled = true;
                        Poll::Ready(o.into())
                    }
                    None => {
                        s.waker = Some(cx.waker().clone());
                        Poll::Pending
                    }
                }
            }
        }
    }
}

impl Drop for ReqFuture {
    fn drop(&mut self) {
        if let Some(s) = &self.slot {
            let mut s = s.borrow_mut();
            if !s.cancelled {
                s.cancelled = true;
            }
        }
    }
}

pub enum OutcomeOut {
    Read(Result<Vec<u8>, &'static str>),
    Unit(Result<(), &'static str>),
}

impl From<Outcome> for OutcomeOut {
    fn from(o: Outcome) -> Self {
        match o {
            Outcome::Read(r) => OutcomeOut::Read(r),
            Outcome::Unit(r) => OutcomeOut::Unit(r),
        }
    }
}

impl Qcow2IoOps for SimIo {
    async fn read_to(&self, offset: u64, buf: &mut [u8]) -> Qcow2Result<usize> {
        let addr = buf.as_ptr() as usize;
        match self
            .request(ReqKind::Read, offset, buf.len(), None, addr)
            .await
        {
            OutcomeOut::Read(Ok(v)) => {
                buf[..v.len()].copy_from_slice(&v);
                // A short read leaves the rest of the buffer as it was, and
                // the library's buffers start out uninitialised: what is in
                // there is whatever the heap held.  Make that a fixed stale
                // pattern, so that code which goes on to use the tail behaves
                // the same in every process (and visibly wrong).
                buf[v.len()..].fill(STALE_BYTE);
                Ok(v.len())
            }
            OutcomeOut::Read(Err(e)) => {
                buf.fill(STALE_BYTE);
                Err(e.into())
            }
            _ => unreachable!(),
        }
    }

    async fn write_from(&self, offset: u64, buf: &[u8]) -> Qcow2Result<()> {
        let addr = buf.as_ptr() as usize;
        match self
            .request(ReqKind::Write, offset, buf.len(), Some(buf), addr)
            .await
        {
            OutcomeOut::Unit(Ok(())) => Ok(()),
            OutcomeOut::Unit(Err(e)) => Err(e.into()),
            _ => unreachable!(),
        }
    }

    async fn fallocate(&self, offset: u64, len: usize, _flags: u32) -> Qcow2Result<()> {
        match self.request(ReqKind::Punch, offset, len, None, 0).await {
            OutcomeOut::Unit(Ok(())) => Ok(()),
            OutcomeOut::Unit(Err(e)) => Err(e.into()),
            _ => unreachable!(),
        }
    }

    async fn fsync(&self, offset: u64, len: usize, _flags: u32) -> Qcow2Result<()> {
        let _ = (offset, len);
        match self.request(ReqKind::Fsync, 0, 0, None, 0).await {
            OutcomeOut::Unit(Ok(())) => Ok(()),
            OutcomeOut::Unit(Err(e)) => Err(e.into()),
            _ => unreachable!(),
        }
    }
}
